#!/bin/bash
# usage: tools/run_all.sh [tier] [seed] [parallel]   — runs every registered check, prints one line per check
TIER="${1:-quick}"; SEED="${2:-1}"; PAR="${3:-5}"
cd /verif
mkdir -p /tmp/runall
ids=$(python3 -c "import json; print(' '.join(c['property_id'] for c in json.load(open('MANIFEST.json'))['checks']))")
printf "%s\n" $ids | xargs -P "$PAR" -I{} sh -c "VERIF_SEED=$SEED ./check {} --tier $TIER > /tmp/runall/{}.$SEED.log 2>&1; echo \"{} exit=\$? \$(grep -c '^VIOLATION' /tmp/runall/{}.$SEED.log) violations, \$(grep -c '^KNOWN-FINDING' /tmp/runall/{}.$SEED.log) known, \$(grep -o 'wall=[0-9.]*s' /tmp/runall/{}.$SEED.log | tail -1)\""
