#!/bin/bash
# usage: tools/try_patch.sh <patch.diff> <ID> [tier]   — applies the patch to /repo, runs the check, reverts.
set -u
P="$1"; ID="$2"; TIER="${3:-quick}"
cd /repo || exit 3
if ! git diff --quiet; then echo "/repo is dirty; refusing"; exit 3; fi
git apply "$P" || { echo "patch does not apply"; exit 3; }
cd /verif
OUT=$(VERIF_EVIDENCE_DIR=/tmp/seed_evidence ./check "$ID" --tier "$TIER" 2>&1); RC=$?
echo "$OUT" | grep -E "^(VIOLATION|KNOWN-FINDING|INCONCLUSIVE|\[C)" | head -8 | cut -c1-400
echo "exit=$RC"
git -C /repo checkout -- . 
exit $RC
