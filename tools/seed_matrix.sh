#!/bin/bash
# Runs, for every confirmed seeded change under /verif/seeded, the quick check of the property it breaks
# (apply to /repo, run, undo).  Writes /verif/seeded/RESULTS.tsv.  /repo must be clean and otherwise unused meanwhile.
cd /verif
PAT="${1:-*}"; OUT="${2:-/verif/seeded/RESULTS.tsv}"
# usage: tools/seed_matrix.sh [glob of seed ids, default all] [output tsv]
echo -e "seed\tproperty\tcheck\texit\tviolations\twall_s" > $OUT
for d in /verif/seeded/$PAT/; do
  [ -f $d/patch.diff ] || continue
  sid=$(basename $d); prop=$(python3 -c "import json;print(json.load(open('$d/meta.json'))['property'])")
  if ! git -C /repo diff --quiet; then echo "/repo dirty"; exit 3; fi
  if ! git -C /repo apply --check $d/patch.diff 2>/dev/null; then echo -e "$sid\t$prop\t$prop\tNOAPPLY\t-\t-" >> $OUT; continue; fi
  git -C /repo apply $d/patch.diff
  t0=$(date +%s)
  VERIF_EVIDENCE_DIR=/tmp/seed_evidence ./check $prop --tier quick > /tmp/seedrun_$sid.log 2>&1; rc=$?
  t1=$(date +%s)
  nv=$(grep -c '^VIOLATION' /tmp/seedrun_$sid.log)
  git -C /repo checkout -- .
  echo -e "$sid\t$prop\t$prop\t$rc\t$nv\t$((t1-t0))" >> $OUT
done
echo done
