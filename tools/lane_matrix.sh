#!/bin/bash
# usage: tools/lane_matrix.sh <out.tsv> <lanes> <seed-id>...
# Tries seeded changes against the quick check of the property they break, in parallel, WITHOUT touching /repo:
# each lane owns a scratch worktree of /repo's HEAD (/tmp/lanes/<n>/repo), generated harness manifests and a target
# dir (/tmp/lanes/<n>/{harness,t}); the checks are pointed there with VERIF_REPO / VERIF_LANE.  Lanes are removed at
# the end unless KEEP_LANES=1.  (tools/seed_matrix.sh does the same on /repo itself, one seed at a time.)
OUT="$1"; N="$2"; shift 2
cd /verif
[ -f "$OUT" ] || echo -e "seed\tproperty\tcheck\texit\tviolations\twall_s" > "$OUT"
SEEDS=("$@")
lane() {
  n=$1; L=/tmp/lanes/$n
  mkdir -p $L
  [ -d $L/repo ] || git -C /repo worktree add --detach $L/repo HEAD >/dev/null 2>&1
  git -C $L/repo checkout -q --detach $(git -C /repo rev-parse HEAD); git -C $L/repo checkout -- .
  i=0
  for sid in "${SEEDS[@]}"; do
    i=$((i+1)); [ $(( (i-1) % N )) -eq $((n-1)) ] || continue
    d=/verif/seeded/$sid
    prop=$(python3 -c "import json;print(json.load(open('$d/meta.json'))['property'])")
    chk="${CHECK_OVERRIDE:-$prop}"
    if ! git -C $L/repo apply $d/patch.diff 2>/dev/null; then echo -e "$sid\t$prop\t$chk\tNOAPPLY\t-\t-" >> "$OUT"; continue; fi
    t0=$(date +%s)
    VERIF_REPO=$L/repo VERIF_LANE=$L VERIF_EVIDENCE_DIR=$L/ev VERIF_SEED=${VERIF_SEED:-1} ./check $chk --tier quick > /tmp/seedrun_$sid.log 2>&1; rc=$?
    t1=$(date +%s)
    nv=$(grep -c '^VIOLATION' /tmp/seedrun_$sid.log)
    git -C $L/repo checkout -- .
    echo -e "$sid\t$prop\t$chk\t$rc\t$nv\t$((t1-t0))" >> "$OUT"
  done
}
for n in $(seq 1 $N); do lane $n & done
wait
if [ -z "$KEEP_LANES" ]; then
  for n in $(seq 1 $N); do git -C /repo worktree remove --force /tmp/lanes/$n/repo 2>/dev/null; rm -rf /tmp/lanes/$n; done
fi
echo done
