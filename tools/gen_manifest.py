#!/usr/bin/env python3
"""Writes /verif/MANIFEST.json from the table below (keeps it schema-valid at all times)."""
import json, os, subprocess, sys

VERIF = os.path.dirname(os.path.dirname(os.path.abspath(__file__)))

BUILT = set(sys.argv[1:]) if len(sys.argv) > 1 else None

T = {
 "C01": ("reference-model monitor: every go-to-definition answer (library entry point and real server) at every column of every usage token in generated workspaces is compared with an independent model of pytest's lookup; repeated after every conftest tab was closed, and for a document opened with a text that differs from the scanned file",
         "reference-model runtime monitor (differential vs Python model of pytest lookup)",
         "the Python model of pytest's lookup (vlib/pymodel.py) is correct for the generated grammar; the generators reach the layouts that matter; CPython ast"),
 "C02": ("reference-model monitor over override chains: every column of every overriding def line, definition/references/hierarchy answers vs model with outward exclusion; per-class overrides in one file; repeated after the chain's files were closed and re-opened; two links of one chain in one file; a new module opened through a symlinked workspace root before it exists",
         "reference-model runtime monitor (override chains x cursor columns)",
         "model of outward resolution; chains up to length 4 over the generated placements"),
 "C03": ("reference-model monitor: the index records after analyze_file are compared field by field with an extraction done by CPython's ast/tokenize over generated sources (incl. same-file redefinitions and re-sent texts)",
         "reference-model runtime monitor (CPython ast extraction vs recorded index)",
         "CPython's parser as ground truth for the documented forms; sources outside rustpython's grammar are skipped, never judged"),
 "C04": ("consistency monitor: for every (definition, usage) pair of generated workspaces and edit histories, refs/goto equivalence, reverse-index mirror invariant at every quiescent point, and equality of code-lens / incoming-calls / CLI counts; the two usage indexes under seeded schedules of concurrent analyses",
         "cross-path consistency monitor + invariant hook on the reverse usage index",
         "observations are the server's own answers; no model needed"),
 "C05": ("cross-feature monitor on the real server: identities decoded from definition/hover/implementation/prepareCallHierarchy/outgoingCalls/inlayHint/completion at the same position must coincide (unique docstring and return-type tokens per definition); repeated after import-only edits and after closing every conftest; per-file view vs navigation after a concurrent edit under seeded schedules; buffer-only layouts (conftest in the file-system root, never-saved conftest closed again)",
         "cross-feature runtime monitor with unique-value identities",
         "unique identity tokens make decoded identities unambiguous"),
 "C06": ("twin execution at every prefix of generated edit histories: history database vs fresh database on the latest valid contents (ordered raw maps + all queries), vs a cold database (raw maps as multisets), and the same through the real server (incl. two versions sent back to back)",
         "twin-execution runtime monitor (history vs fresh index)",
         "same code on both sides, so common-mode defects are invisible; registration order is aligned by construction"),
 "C07": ("twin execution: long-lived database with interleaved queries, closes and cache eviction vs a cold twin that received the same analyses only; every query compared at every step; open/query before the scan; queries concurrent with analyses under seeded schedules; every request kind on the real server before/after closing documents and opening 2000+ others; directed import layouts with cut-short nested walks asked in every query order vs a cold database asked one question",
         "twin-execution runtime monitor (warm vs cold caches)",
         "identical analysis sequences give identical registration order, so differences are caused by cached state"),
 "C08": ("twin execution across analysis orders, worker counts and processes: permutations of per-file analysis order on fresh databases, real scans with different RAYON_NUM_THREADS and delay injection, CLI runs; snapshots compared; registration orders across the plugin / third-party tiers; workspace symbols of a 200+ fixture workspace across server processes; parallel registration of the same names under injected delays",
         "twin-execution runtime monitor (order / schedule / process permutations)",
         "sampling of permutations, not enumeration"),
 "C09": ("quiescent-state checker under a serialising scheduler inside the instrumented DashMap: seeded interleavings (uniform and PCT) of 2-3 concurrent analyses of files sharing names; final index must equal some sequential outcome and satisfy the mirror invariants; memoising queries overlapping analyses; native scan concurrent with an edit of another file; plus native stress with delay injection, TSan and Miri runs",
         "schedule-exploring runtime monitor (instrumented DashMap scheduler) + TSan/Miri",
         "hook granularity is one shard-lock operation; sampled schedules"),
 "C10": ("quiescent-state checker for {scan visits F from disk} || {didOpen/didChange(F)}: library level under the scheduler and both sequential orders, and the real server with the scan failpoint placing the notification before/after the visit or between the scan's phases; roots named through symbolic links; open+change sent in one write",
         "schedule-controlled runtime monitor (scan failpoint + scheduler)",
         "failpoint and event log hooks are cfg-guarded and only delay, never alter, execution"),
 "C11": ("trace checker over hostile workloads: one response per request and a clean shutdown on the real server, catch_unwind around library entry points, CLI exit status, scan isolation; legal-but-unusual protocol sequences; more files than the text cache holds; dev-build pass; ASan / valgrind on reduced workloads (thorough)",
         "runtime trace checker over hostile inputs + sanitizers",
         "hostile generators cover the byte-slicing sites; sanitizers exercise dependencies as driven by the repo"),
 "C12": ("lock monitor in the instrumented DashMap over all workloads: conflicting same-map re-entrancy (any shard), conflicting lock-order cycles, scheduler no-runnable-thread, classified watchdogs; cyclic inputs (incl. import cycles among plugin modules) bounded by watchdogs; requests during a gated scan and its tail; notification bursts followed by requests; workspaces and documents named through symbolic links (non-canonical paths, 2 shards)",
         "lock-order / re-entrancy runtime monitor + watchdogs on cyclic inputs",
         "std Mutex/tokio locks are covered by watchdogs only"),
 "C13": ("reference-model monitor: independent directory walk vs the files indexed by the real scan, relocation twins (same tree under differently named roots), broken-file isolation (incl. unreadable imported modules); non-canonical root spellings",
         "reference-model + relocation-twin runtime monitor",
         "exclude globs restricted to forms whose meaning is unambiguous"),
 "C14": ("reference-model monitor over generated import graphs and virtualenv layouts: availability, defining module and classification vs an import-closure model; plugin chains with diamonds, package entry points, editable installs inside / outside / above the workspace; re-analysis and close/re-open after the scan",
         "reference-model runtime monitor (import closure + classification)",
         "model of Python import resolution for the generated forms"),
 "C15": ("reference-model monitor: every Location/Range in responses of the real server vs CPython's token table in UTF-16 columns, plus structural LSP rules",
         "reference-model runtime monitor (token positions in UTF-16)",
         "CPython tokenize as ground truth"),
 "C16": ("reference-model monitor: reported cycles and scope mismatches vs SCCs and scope order over a reference dependency graph; stability across orders; published diagnostics on the real server; cycle report after a concurrent edit under seeded schedules",
         "reference-model runtime monitor (SCC / scope order) + order permutations",
         "model resolves dependencies per file as pytest would"),
 "C17": ("ground truth + round trip: expected undeclared-fixture warnings from the generator; quick-fix and completion edits applied to the text, re-parsed with CPython and fed back to the server; same-length re-sends and back-to-back versions",
         "runtime monitor with generator ground truth and CPython round-trip of edits",
         "generator ground truth for the forms it emits"),
 "C18": ("ground truth per cursor line: completion context class and offered set vs generator ground truth and the visibility model; offered set after a concurrent edit under seeded schedules; plugin module opened before the scan's venv phase",
         "runtime monitor with generator ground truth (completion sets)",
         "generator knows the context class of every line it emits"),
 "C19": ("offline trace checker: last publishDiagnostics per document vs the collectors on a cold library index of the latest content; cause-removal, close/re-open, back-to-back versions, a document opened during the start-up scan, configuration variants",
         "offline trace checker over recorded LSP notifications",
         "the collectors are the same code, asked on a cold index so that stale caches are not shared; glue, gating, ordering and cache validity are what is checked"),
 "C20": ("cross-check of the CLI binary against find_references_for_definition and the model, exit status, JSON/text agreement, filter partition, byte equality across runs and worker counts; venv layouts with editable installs; non-UTF-8 paths; every definition reported once under parallel registration with injected delays",
         "cross-check runtime monitor (CLI vs library) + repeat runs",
         "the library reference sets are the server's answers"),
}

PENDING_REASON = "check under construction in this session: the monitor described in DESIGN.md for this property is not registered until it has been run silent on the unchanged tree and shown to fire on a seeded break"


def main():
    built = BUILT
    if built is None:
        built = {p[:-3].upper() for p in os.listdir(os.path.join(VERIF, "vlib", "props")) if p.startswith("c") and p.endswith(".py")}
    checks, na = [], []
    for pid in sorted(T):
        text, tech, note = T[pid]
        if pid in built:
            checks.append({
                "property_id": pid,
                "quick_cmd": f"./check {pid} --tier quick",
                "thorough_cmd": f"./check {pid} --tier thorough",
                "evidence_file": f"/verif/evidence/{pid}.json",
                "replay_cmd_template": f"./check {pid} --replay {{path}}",
                "engine": "check",
                "level_claimed": {"category": "exploration", "text": text + ". Verdict: held on the executions observed (counts in the evidence file), never 'verified'.",
                                  "design_ref": f"DESIGN.md §3 {pid}"},
                "level_note": note,
                "technique": tech,
            })
        else:
            na.append({"property_id": pid, "reason": PENDING_REASON})
    head = subprocess.run(["git", "-C", "/repo", "log", "--format=%h %s"], capture_output=True, text=True).stdout.splitlines()
    hooks = [l for l in head if l.split(" ", 1)[1].startswith("verif hooks")]
    m = {
        "version": 1,
        "setup_cmd": "python3 vlib/build.py vh srv vh-dev",
        "hooks": {
            "guard": "cfg(pytest_language_server_verif)",
            "enable": "RUSTFLAGS='--cfg pytest_language_server_verif' (set by vlib/build.py for the vh harness and for the srv build whose [[bin]] path is /repo/src/main.rs; both link /verif/shims/dashmap via [patch.crates-io])",
            "baseline_off_cmd": "cd /repo && cargo test --workspace --no-fail-fast --offline",
            "source_commits": [h.split(" ")[0] for h in hooks],
            "add_only": True,
        },
        "engines": [
            {"name": "check", "path": "/verif/check", "serves_properties": sorted(built),
             "kind_free_text": "Python driver: generators, reference model, offline checkers; drives vh (library harness) and srv (real server/CLI) built from /repo's working tree against an instrumented dashmap"},
            {"name": "vh", "path": "/verif/harness/vh", "serves_properties": sorted(built), "kind_free_text": "Rust JSON-lines harness over the library; twins, snapshots, scheduler/stress"},
            {"name": "dashmap-shim", "path": "/verif/shims/dashmap", "serves_properties": ["C09", "C10", "C12"], "kind_free_text": "dashmap 6.1.0 + lock monitor, delay injector, serialising scheduler"},
        ],
        "checks": checks,
        "not_applicable": na,
        "notes": "Runtime monitoring and sanitizers only. known_findings.json lists genuine defects recorded rather than repaired; fixes are 'fix:' commits in /repo.",
    }
    json.dump(m, open(os.path.join(VERIF, "MANIFEST.json"), "w"), indent=1)
    print("built:", sorted(built), "pending:", [x["property_id"] for x in na])


if __name__ == "__main__":
    main()
