#!/bin/bash
# usage: tools/confirm_seed.sh <agent_out_dir> <seed_id> <property>
# Confirms a seeded change in a scratch worktree: (1) applies, (2) full suite passes, (3) demo fails with it,
# (4) demo passes without it.  On success stores it under /verif/seeded/<seed_id>/.
set -u
SRC="$1"; SID="$2"; PROP="$3"
# SEEDCHK_WT / SEEDCHK_TARGET: run in another scratch worktree (e.g. the agent's own, whose target is warm) so that
# several confirmations can run side by side.
WT=${SEEDCHK_WT:-/tmp/seedchk/wt}
export CARGO_NET_OFFLINE=true
export CARGO_TARGET_DIR=${SEEDCHK_TARGET:-/tmp/seedchk/target}
mkdir -p /tmp/seedchk
if [ ! -d "$WT" ]; then git -C /repo worktree add -q --detach "$WT" HEAD || exit 3; fi
cd "$WT" || exit 3
git checkout -q --detach "$(git -C /repo rev-parse HEAD)" 2>/dev/null
git checkout -q -- . ; git clean -fdq tests/ 2>/dev/null
LOG=/tmp/seedchk/$SID.log; : > "$LOG"
git apply "$SRC/patch.diff" >>"$LOG" 2>&1 || { echo "$SID: patch does not apply"; exit 1; }
if git diff --name-only | grep -qv '^src/'; then echo "$SID: patch touches non-src files"; fi
cargo test --workspace --no-fail-fast --offline >>"$LOG" 2>&1
SUITE=$(grep -E "^test result" "$LOG" | awk '{p+=$4; f+=$6} END {print p" "f}')
if [ "$SUITE" != "710 0" ]; then echo "$SID: suite with change: $SUITE (expected 710 0)"; git checkout -q -- .; exit 1; fi
DEMO=$(ls "$SRC"/demo.* | head -1)
run_demo() {
  case "$DEMO" in
    *.rs) cp "$DEMO" tests/zz_demo_seed.rs; cargo test --offline --test zz_demo_seed >>"$LOG" 2>&1; R=$?; rm -f tests/zz_demo_seed.rs; return $R;;
    *.py) cargo build --offline >>"$LOG" 2>&1; LINKED=0; if [ ! -e "$WT/target" ]; then ln -sfn "$CARGO_TARGET_DIR" "$WT/target"; LINKED=1; fi
          ( cd "$WT" && python3 "$DEMO" "$WT" >>"$LOG" 2>&1 ); R=$?
          if [ $R -ne 0 ] && [ $R -ne 1 ]; then ( cd "$WT" && python3 "$DEMO" "$CARGO_TARGET_DIR/debug/pytest-language-server" >>"$LOG" 2>&1 ); R=$?; fi
          [ $LINKED -eq 1 ] && rm -f "$WT/target"; return $R;;
    *) echo "unknown demo type" >>"$LOG"; return 99;;
  esac
}
run_demo; WITH=$?
git checkout -q -- .
run_demo; WITHOUT=$?
if [ $WITH -ne 0 ] && [ $WITHOUT -eq 0 ]; then
  D=/verif/seeded/$SID; mkdir -p "$D"
  cp "$SRC/patch.diff" "$D/patch.diff"; cp "$DEMO" "$D/"; [ -f "$SRC/notes.md" ] && cp "$SRC/notes.md" "$D/notes.md"
  python3 - "$D" "$PROP" "$SID" <<'PY'
import json,sys,os
d,prop,sid=sys.argv[1:4]
notes=open(os.path.join(d,'notes.md')).read() if os.path.exists(os.path.join(d,'notes.md')) else ''
meta={"id":sid,"property":prop,"source":"independent sub-agent given only the property text and a scratch worktree",
 "confirmed":{"applies_to_head":True,"suite_with_change":"710 passed, 0 failed","demo_with_change":"fails","demo_without_change":"passes",
   "how":"tools/confirm_seed.sh in a scratch worktree under /tmp (removed afterwards)"},
 "needs_to_manifest": notes[:1500]}
json.dump(meta,open(os.path.join(d,'meta.json'),'w'),indent=1)
PY
  echo "$SID: CONFIRMED (demo fails with change rc=$WITH, passes without)"
else
  echo "$SID: NOT confirmed (with=$WITH without=$WITHOUT) see $LOG"
fi
