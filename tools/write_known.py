#!/usr/bin/env python3
"""Writes /verif/known/<id>/ (witness files + README) for every entry of known_findings.json from vlib/witness.py."""
import json, os, random, shutil, sys
sys.path.insert(0, os.path.dirname(os.path.dirname(os.path.abspath(__file__))))
from vlib.witness import WITNESS
from vlib.common import write_tree

V = os.path.dirname(os.path.dirname(os.path.abspath(__file__)))
kf = json.load(open(os.path.join(V, "known_findings.json")))
for e in kf["known"]:
    i = e["id"]
    d = os.path.join(V, "known", i)
    shutil.rmtree(d, ignore_errors=True)
    os.makedirs(d)
    w = WITNESS.get(i) or (WITNESS["KF-C15"] if i.startswith("KF-C15") else WITNESS["KF-C18"] if i.startswith("KF-C18") else {})
    files = dict(w.get("files", {}))
    extra = ""
    if i.startswith("KF-C18"):
        from vlib.props import c18
        files = {"conftest.py": c18.PIN_CONF,
                 "test_doc.py": {"KF-C18-text-fallback-counts-parens-from-earlier-usefixtures": c18.PIN_PAREN,
                                 "KF-C18-text-fallback-knows-only-pytest.fixture-spelling": c18.PIN_SPELL,
                                 "KF-C18-text-fallback-runs-on-valid-documents": c18.PIN_NESTED}[i]}
        extra = "request: textDocument/completion on the last line of test_doc.py (def line of test_inner for the nested case)\n"
    if i == "KF-C17-parameter-insertion-by-text-search":
        files = {"conftest.py": "import pytest\n\n" + "".join(f"@pytest.fixture\ndef {n}():\n    return 1\n\n" for n in ["fa", "fb", "fc", "settings"]),
                 "pkg/test_doc.py": w["doc"]}
        extra = "request: completion in the body of test_first / test_third, apply additionalTextEdits of item 'fa'\n"
    if i == "KF-C10-scan-after-open":
        from vlib.props import c10
        disk, buf, further = c10.variants("conftest", random.Random(0))
        files = {"pkg/conftest.py (on disk)": disk, "pkg/conftest.py (editor buffer)": buf}
        extra = "history: didOpen(pkg/conftest.py, buffer) completes, THEN the scan visits pkg/conftest.py\n"
    if i == "KF-C14-explicit-import-in-plugin-not-propagated":
        from vlib.props import c14
        for seed in range(400):
            rng = random.Random(seed)
            fs, ext, expect = c14.gen_venv_layout("/WORKSPACE", "/OUTSIDE", rng)
            if any(x["tier"] == "explicit_plugin" for x in expect.values()):
                files = fs
                extra = f"generated layout (seed {seed}); fixture(s) with tier explicit_plugin: " + ", ".join(n for n, x in expect.items() if x["tier"] == "explicit_plugin") + "\n"
                break
    write_tree(os.path.join(d, "files"), {k.replace(" ", "_").replace("(", "").replace(")", ""): v for k, v in files.items()})
    with open(os.path.join(d, "README.md"), "w") as f:
        f.write(f"# {i}\n\nproperty: {e['property']}\n\n**what fails:** {e['what']}\n\n**signature (how a deviation is attributed to this entry):** {e['signature']}\n\n"
                f"**witness:** {w.get('why', '')}\n\n{extra}"
                + (f"analysis order that shows it: {w['order']}\n" if "order" in w else "")
                + (f"history: {[(s['op'], s['rel']) for s in w['steps']]}\n" if "steps" in w else ""))
print("written", len(kf["known"]), "witness directories")
