#!/bin/bash
# usage: tools/r5_confirm.sh <Cxx>   — confirm the round-5 deliverables of one agent (out/A -> Cxx-i, out/B -> Cxx-j)
# in the agent's own scratch worktree (warm target), then remove that worktree and its build output.
P="$1"; D=/tmp/r5/$P
for pair in A:i B:j; do
  X=${pair%%:*}; S=${pair##*:}
  [ -f $D/out/$X/patch.diff ] || { echo "$P-$S: no patch"; continue; }
  SEEDCHK_WT=$D/wt SEEDCHK_TARGET=$D/wt/target /verif/tools/confirm_seed.sh $D/out/$X $P-$S $P
done
git -C /repo worktree remove --force $D/wt 2>/dev/null; rm -rf $D/wt
