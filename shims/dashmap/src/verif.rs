//! Verification instrumentation for the shard locks (NOT part of upstream dashmap).
//!
//! Three facilities, all driven from `lock.rs`:
//!
//! * **lock monitor** (always on): thread-local stack of held shard locks, detection of
//!   conflicting re-entrancy on one map (any shard), lock-order edges between maps,
//!   R/R re-entrancy census. Records are appended to `$VERIF_LOCKLOG` as JSON lines.
//! * **delay injector** (`VERIF_DELAY=<seed>:<ppm>`): random yields / short sleeps
//!   *between* critical sections, native threads.
//! * **serialising scheduler** (`sched`): registered threads run one at a time, a seeded
//!   PRNG picks who runs at every hook point, blocked acquisitions are modelled with
//!   `try_lock` so that "no runnable thread" is observed as a deadlock instead of a hang.
//!
//! None of this state lives in a DashMap.

use std::cell::{Cell, RefCell};
use std::collections::{HashMap, HashSet};
use std::io::Write;
use std::sync::atomic::{AtomicBool, AtomicU64, AtomicUsize, Ordering};
use std::sync::{Condvar, Mutex, OnceLock};

pub const EXIT_DEADLOCK: i32 = 97;

#[derive(Clone, Copy, PartialEq, Eq, Hash, Debug)]
pub enum Mode {
    Shared,
    Exclusive,
}

impl Mode {
    fn ch(self) -> &'static str {
        match self {
            Mode::Shared => "R",
            Mode::Exclusive => "W",
        }
    }
}

// ---------------------------------------------------------------------------------------------
// map registry
// ---------------------------------------------------------------------------------------------

static NEXT_MAP_ID: AtomicU64 = AtomicU64::new(1);
static GROUP: AtomicU64 = AtomicU64::new(0);
static ORD_IN_GROUP: AtomicU64 = AtomicU64::new(0);

#[derive(Clone, Debug)]
pub struct MapInfo {
    pub id: u64,
    pub group: u64,
    pub ordinal: u64,
    pub type_name: &'static str,
}

fn registry() -> &'static Mutex<HashMap<u64, MapInfo>> {
    static R: OnceLock<Mutex<HashMap<u64, MapInfo>>> = OnceLock::new();
    R.get_or_init(|| Mutex::new(HashMap::new()))
}

/// Start a new group of maps (the harness calls this right before `FixtureDatabase::new()`
/// so that the n-th map created afterwards is the n-th field of the database).
pub fn begin_group() -> u64 {
    ORD_IN_GROUP.store(0, Ordering::SeqCst);
    GROUP.fetch_add(1, Ordering::SeqCst) + 1
}

pub(crate) fn register_map(type_name: &'static str) -> u64 {
    let id = NEXT_MAP_ID.fetch_add(1, Ordering::SeqCst);
    let info = MapInfo {
        id,
        group: GROUP.load(Ordering::SeqCst),
        ordinal: ORD_IN_GROUP.fetch_add(1, Ordering::SeqCst),
        type_name,
    };
    registry().lock().unwrap().insert(id, info);
    id
}

pub fn map_info(id: u64) -> Option<MapInfo> {
    registry().lock().unwrap().get(&id).cloned()
}

fn map_label(id: u64) -> String {
    match map_info(id) {
        Some(i) => format!("g{}#{}:{}", i.group, i.ordinal, i.type_name),
        None => format!("?{}", id),
    }
}

/// logical key of a map for graph purposes: ordinal within its group + type
fn map_key(id: u64) -> String {
    match map_info(id) {
        Some(i) => format!("#{}:{}", i.ordinal, i.type_name),
        None => format!("?{}", id),
    }
}

pub fn shard_override() -> Option<usize> {
    static S: OnceLock<Option<usize>> = OnceLock::new();
    *S.get_or_init(|| {
        std::env::var("VERIF_SHARDS")
            .ok()
            .and_then(|v| v.parse::<usize>().ok())
            .filter(|n| *n > 1 && n.is_power_of_two())
    })
}

// ---------------------------------------------------------------------------------------------
// lock monitor
// ---------------------------------------------------------------------------------------------

#[derive(Clone, Copy)]
struct Held {
    map: u64,
    shard: u32,
    mode: Mode,
    addr: usize,
}

thread_local! {
    static HELD: RefCell<Vec<Held>> = const { RefCell::new(Vec::new()) };
    static IN_MONITOR: Cell<bool> = const { Cell::new(false) };
    static SEEN_LOCAL: RefCell<HashSet<u64>> = RefCell::new(HashSet::new());
}

#[derive(Default)]
struct Monitor {
    edges: HashSet<String>,
    rr: HashSet<String>,
    conflicts: HashSet<String>,
    log: Option<std::fs::File>,
    log_opened: bool,
}

static ACQUISITIONS: AtomicU64 = AtomicU64::new(0);
static NESTED: AtomicU64 = AtomicU64::new(0);
static CONFLICTS: AtomicU64 = AtomicU64::new(0);
static RR_COUNT: AtomicU64 = AtomicU64::new(0);
static MAX_DEPTH: AtomicUsize = AtomicUsize::new(0);

fn monitor() -> &'static Mutex<Monitor> {
    static M: OnceLock<Mutex<Monitor>> = OnceLock::new();
    M.get_or_init(|| {
        #[cfg(not(miri))]
        {
            extern "C" fn at_exit() {
                dump_stats("exit");
            }
            extern "C" {
                fn atexit(cb: extern "C" fn()) -> i32;
            }
            unsafe {
                atexit(at_exit);
            }
        }
        Mutex::new(Monitor::default())
    })
}

fn log_line(m: &mut Monitor, line: &str) {
    if !m.log_opened {
        m.log_opened = true;
        if let Ok(p) = std::env::var("VERIF_LOCKLOG") {
            m.log = std::fs::OpenOptions::new()
                .create(true)
                .append(true)
                .open(p)
                .ok();
        }
    }
    if let Some(f) = m.log.as_mut() {
        let _ = writeln!(f, "{}", line);
        let _ = f.flush();
    }
}

fn json_str(s: &str) -> String {
    let mut o = String::with_capacity(s.len() + 2);
    o.push('"');
    for c in s.chars() {
        match c {
            '"' => o.push_str("\\\""),
            '\\' => o.push_str("\\\\"),
            '\n' => o.push_str("\\n"),
            '\r' => o.push_str("\\r"),
            '\t' => o.push_str("\\t"),
            c if (c as u32) < 0x20 => o.push_str(&format!("\\u{:04x}", c as u32)),
            c => o.push(c),
        }
    }
    o.push('"');
    o
}

fn short_backtrace() -> String {
    let bt = std::backtrace::Backtrace::force_capture().to_string();
    // keep only frames that mention the repository, the harness or dashmap entry points
    let mut out = Vec::new();
    let mut lines = bt.lines().peekable();
    while let Some(l) = lines.next() {
        let t = l.trim();
        let is_frame = t
            .split(':')
            .next()
            .map(|n| n.trim().parse::<u32>().is_ok())
            .unwrap_or(false);
        if is_frame {
            let mut loc = String::new();
            if let Some(n) = lines.peek() {
                if n.trim().starts_with("at ") {
                    loc = n.trim().to_string();
                }
            }
            let keep = t.contains("pytest_language_server")
                || t.contains("vh::")
                || t.contains("dashmap::DashMap")
                || t.contains("dashmap::t::Map")
                || loc.contains("/repo/src");
            if keep && !t.contains("dashmap::verif") && !t.contains("dashmap::lock") {
                out.push(format!("{} {}", t, loc));
            }
        }
        if out.len() >= 24 {
            break;
        }
    }
    out.join(" | ")
}

/// Called before a *blocking* acquisition.  Returns true if the acquisition would
/// self-deadlock for certain (same shard, conflicting modes).
fn check_acquire(map: u64, shard: u32, mode: Mode, addr: usize) {
    if map == 0 {
        return;
    }
    ACQUISITIONS.fetch_add(1, Ordering::Relaxed);
    let held: Vec<Held> = HELD.with(|h| h.borrow().clone());
    if held.is_empty() {
        return;
    }
    NESTED.fetch_add(1, Ordering::Relaxed);
    let mut certain_deadlock = false;
    for h in &held {
        if h.map == map {
            let conflicting = h.mode == Mode::Exclusive || mode == Mode::Exclusive;
            if conflicting {
                CONFLICTS.fetch_add(1, Ordering::Relaxed);
                let same_shard = h.addr == addr;
                certain_deadlock |= same_shard;
                let key = format!("{}:{}>{}", map_key(map), h.mode.ch(), mode.ch());
                let mut m = monitor().lock().unwrap_or_else(|e| e.into_inner());
                let first = m.conflicts.insert(key.clone());
                if first || same_shard {
                    let line = format!(
                        "{{\"ev\":\"conflict\",\"map\":{},\"held_mode\":\"{}\",\"req_mode\":\"{}\",\"held_shard\":{},\"req_shard\":{},\"same_shard\":{},\"bt\":{}}}",
                        json_str(&map_label(map)),
                        h.mode.ch(),
                        mode.ch(),
                        h.shard,
                        shard,
                        same_shard,
                        json_str(&short_backtrace())
                    );
                    log_line(&mut m, &line);
                    eprintln!("VERIF-LOCK-CONFLICT {}", line);
                }
            } else {
                RR_COUNT.fetch_add(1, Ordering::Relaxed);
                let code = (map << 1) | 1;
                let seen = SEEN_LOCAL.with(|s| !s.borrow_mut().insert(code));
                if !seen {
                    let key = map_key(map);
                    let mut m = monitor().lock().unwrap_or_else(|e| e.into_inner());
                    if m.rr.insert(key.clone()) {
                        let line = format!(
                            "{{\"ev\":\"rr\",\"map\":{},\"bt\":{}}}",
                            json_str(&key),
                            json_str(&short_backtrace())
                        );
                        log_line(&mut m, &line);
                    }
                }
            }
        } else {
            // lock-order edge between two different maps
            let code = (h.map << 34)
                ^ (map << 4)
                ^ ((h.mode == Mode::Exclusive) as u64) << 1
                ^ ((mode == Mode::Exclusive) as u64) << 2;
            let seen = SEEN_LOCAL.with(|s| !s.borrow_mut().insert(code));
            if !seen {
                let key = format!(
                    "{}:{}>{}:{}",
                    map_key(h.map),
                    h.mode.ch(),
                    map_key(map),
                    mode.ch()
                );
                let mut m = monitor().lock().unwrap_or_else(|e| e.into_inner());
                if m.edges.insert(key) {
                    let line = format!(
                        "{{\"ev\":\"edge\",\"from\":{},\"from_mode\":\"{}\",\"to\":{},\"to_mode\":\"{}\",\"bt\":{}}}",
                        json_str(&map_key(h.map)),
                        h.mode.ch(),
                        json_str(&map_key(map)),
                        mode.ch(),
                        json_str(&short_backtrace())
                    );
                    log_line(&mut m, &line);
                }
            }
        }
    }
    if certain_deadlock {
        let mut m = monitor().lock().unwrap_or_else(|e| e.into_inner());
        log_line(
            &mut m,
            "{\"ev\":\"abort\",\"why\":\"self-deadlock: conflicting re-entrant acquisition of a held shard\"}",
        );
        drop(m);
        eprintln!("VERIF-DEADLOCK self-deadlock on a held shard; aborting with status {}", EXIT_DEADLOCK);
        dump_stats("deadlock");
        std::process::exit(EXIT_DEADLOCK);
    }
}

fn push_held(map: u64, shard: u32, mode: Mode, addr: usize) {
    if map == 0 {
        return;
    }
    HELD.with(|h| {
        let mut h = h.borrow_mut();
        h.push(Held {
            map,
            shard,
            mode,
            addr,
        });
        let d = h.len();
        if d > MAX_DEPTH.load(Ordering::Relaxed) {
            MAX_DEPTH.store(d, Ordering::Relaxed);
        }
    });
}

fn pop_held(addr: usize, mode: Mode) {
    HELD.with(|h| {
        let mut h = h.borrow_mut();
        if let Some(pos) = h.iter().rposition(|x| x.addr == addr && x.mode == mode) {
            h.remove(pos);
        } else if let Some(pos) = h.iter().rposition(|x| x.addr == addr) {
            // guard moved between threads or downgraded; be forgiving
            h.remove(pos);
        }
    });
}

pub fn dump_stats(why: &str) {
    let mut m = monitor().lock().unwrap_or_else(|e| e.into_inner());
    let line = format!(
        "{{\"ev\":\"stats\",\"why\":{},\"acquisitions\":{},\"nested\":{},\"conflicts\":{},\"rr\":{},\"max_depth\":{},\"edges\":{},\"rr_maps\":{}}}",
        json_str(why),
        ACQUISITIONS.load(Ordering::Relaxed),
        NESTED.load(Ordering::Relaxed),
        CONFLICTS.load(Ordering::Relaxed),
        RR_COUNT.load(Ordering::Relaxed),
        MAX_DEPTH.load(Ordering::Relaxed),
        m.edges.len(),
        m.rr.len()
    );
    log_line(&mut m, &line);
}

pub fn stats_json() -> String {
    let m = monitor().lock().unwrap_or_else(|e| e.into_inner());
    let mut edges: Vec<&String> = m.edges.iter().collect();
    edges.sort();
    let mut rr: Vec<&String> = m.rr.iter().collect();
    rr.sort();
    let mut cf: Vec<&String> = m.conflicts.iter().collect();
    cf.sort();
    format!(
        "{{\"acquisitions\":{},\"nested\":{},\"conflicts\":{},\"rr\":{},\"max_depth\":{},\"edges\":[{}],\"rr_maps\":[{}],\"conflict_keys\":[{}]}}",
        ACQUISITIONS.load(Ordering::Relaxed),
        NESTED.load(Ordering::Relaxed),
        CONFLICTS.load(Ordering::Relaxed),
        RR_COUNT.load(Ordering::Relaxed),
        MAX_DEPTH.load(Ordering::Relaxed),
        edges.iter().map(|s| json_str(s)).collect::<Vec<_>>().join(","),
        rr.iter().map(|s| json_str(s)).collect::<Vec<_>>().join(","),
        cf.iter().map(|s| json_str(s)).collect::<Vec<_>>().join(",")
    )
}

// ---------------------------------------------------------------------------------------------
// delay injector (native threads)
// ---------------------------------------------------------------------------------------------

fn delay_cfg() -> Option<(u64, u64)> {
    static D: OnceLock<Option<(u64, u64)>> = OnceLock::new();
    *D.get_or_init(|| {
        let v = std::env::var("VERIF_DELAY").ok()?;
        let (a, b) = v.split_once(':')?;
        Some((a.parse().ok()?, b.parse().ok()?))
    })
}

thread_local! {
    static RNG: Cell<u64> = const { Cell::new(0) };
}

fn tl_rand(seed: u64) -> u64 {
    RNG.with(|r| {
        let mut x = r.get();
        if x == 0 {
            let tid = {
                use std::hash::{Hash, Hasher};
                let mut h = std::collections::hash_map::DefaultHasher::new();
                std::thread::current().id().hash(&mut h);
                h.finish()
            };
            x = seed ^ tid ^ 0x9E37_79B9_7F4A_7C15;
            if x == 0 {
                x = 1;
            }
        }
        x ^= x << 13;
        x ^= x >> 7;
        x ^= x << 17;
        r.set(x);
        x
    })
}

fn maybe_delay() {
    if let Some((seed, ppm)) = delay_cfg() {
        let r = tl_rand(seed);
        if r % 1_000_000 < ppm {
            let k = (r >> 20) % 4;
            if k == 0 {
                std::thread::sleep(std::time::Duration::from_micros((r >> 24) % 200));
            } else {
                std::thread::yield_now();
            }
        }
    }
}

// ---------------------------------------------------------------------------------------------
// entry points used by lock.rs
// ---------------------------------------------------------------------------------------------

/// A raw lock as seen by the instrumentation.
pub trait RawOps {
    fn tag(&self) -> (u64, u32);
    fn addr(&self) -> usize;
    fn raw_try(&self, mode: Mode) -> bool;
    fn raw_lock(&self, mode: Mode);
}

fn guard_reentry() -> bool {
    IN_MONITOR.with(|f| {
        if f.get() {
            true
        } else {
            f.set(true);
            false
        }
    })
}
fn unguard() {
    IN_MONITOR.with(|f| f.set(false));
}

pub fn acquire<L: RawOps>(l: &L, mode: Mode) {
    let (map, shard) = l.tag();
    if map == 0 || guard_reentry() {
        l.raw_lock(mode);
        return;
    }
    check_acquire(map, shard, mode, l.addr());
    unguard();
    if sched::is_registered() {
        sched::yield_point(sched::Ev::Before, map, shard, mode);
        sched::acquire_loop(l, mode, map, shard);
    } else {
        maybe_delay();
        l.raw_lock(mode);
    }
    push_held(map, shard, mode, l.addr());
}

pub fn try_acquire<L: RawOps>(l: &L, mode: Mode) -> bool {
    let (map, shard) = l.tag();
    if map == 0 {
        return l.raw_try(mode);
    }
    if sched::is_registered() {
        sched::yield_point(sched::Ev::Before, map, shard, mode);
    }
    let ok = l.raw_try(mode);
    if ok {
        ACQUISITIONS.fetch_add(1, Ordering::Relaxed);
        push_held(map, shard, mode, l.addr());
        if sched::is_registered() {
            sched::note(sched::Ev::Acquired, map, shard, mode);
        }
    }
    ok
}

pub fn released<L: RawOps>(l: &L, mode: Mode) {
    let (map, shard) = l.tag();
    if map == 0 {
        return;
    }
    pop_held(l.addr(), mode);
    if sched::is_registered() {
        sched::on_release(l.addr());
        sched::yield_point(sched::Ev::Released, map, shard, mode);
    } else {
        maybe_delay();
    }
}

pub fn downgraded<L: RawOps>(l: &L) {
    let addr = l.addr();
    HELD.with(|h| {
        if let Some(x) = h
            .borrow_mut()
            .iter_mut()
            .rev()
            .find(|x| x.addr == addr && x.mode == Mode::Exclusive)
        {
            x.mode = Mode::Shared;
        }
    });
}

// ---------------------------------------------------------------------------------------------
// serialising scheduler
// ---------------------------------------------------------------------------------------------

pub mod sched {
    use super::*;

    #[derive(Clone, Copy, PartialEq, Eq, Debug)]
    pub enum Ev {
        Before,
        Acquired,
        Released,
        Blocked,
    }

    #[derive(Clone, Copy, PartialEq, Eq)]
    enum St {
        Runnable,
        Blocked(usize),
        Finished,
    }

    pub struct Trace {
        /// (thread, event, map ordinal-in-group, shard, mode)
        pub events: Vec<(usize, Ev, u64, u32, Mode)>,
        pub decisions: Vec<u8>,
        pub hooks: usize,
        pub deadlock: bool,
    }

    struct State {
        st: Vec<St>,
        current: usize,
        rng: u64,
        pct: Option<Pct>,
        decisions: Vec<u8>,
        events: Vec<(usize, Ev, u64, u32, Mode)>,
        hooks: usize,
        deadlock: bool,
        replay: Option<Vec<u8>>,
    }

    struct Pct {
        prio: Vec<u64>,
        change_points: Vec<usize>,
        next_low: u64,
    }

    static STATE: Mutex<Option<State>> = Mutex::new(None);
    static CV: Condvar = Condvar::new();
    static ACTIVE: AtomicBool = AtomicBool::new(false);

    thread_local! {
        static ME: Cell<Option<usize>> = const { Cell::new(None) };
    }

    pub fn is_registered() -> bool {
        ACTIVE.load(Ordering::Relaxed) && ME.with(|m| m.get().is_some())
    }

    fn next_rand(s: &mut State) -> u64 {
        let mut x = s.rng;
        x ^= x << 13;
        x ^= x >> 7;
        x ^= x << 17;
        s.rng = x;
        x
    }

    /// choose the next thread to run among runnable ones; None = nobody runnable
    fn choose(s: &mut State) -> Option<usize> {
        let runnable: Vec<usize> = (0..s.st.len())
            .filter(|i| s.st[*i] == St::Runnable)
            .collect();
        if runnable.is_empty() {
            return None;
        }
        let step = s.decisions.len();
        let pick = if let Some(r) = s.replay.as_ref() {
            let want = r.get(step).copied().unwrap_or(runnable[0] as u8) as usize;
            if runnable.contains(&want) {
                want
            } else {
                runnable[0]
            }
        } else if s.pct.is_some() {
            let hit = s.pct.as_ref().unwrap().change_points.contains(&step);
            if hit {
                let cur = s.current;
                let p = s.pct.as_mut().unwrap();
                if cur < p.prio.len() {
                    p.prio[cur] = p.next_low;
                    p.next_low = p.next_low.saturating_sub(1);
                }
            }
            let p = s.pct.as_ref().unwrap();
            *runnable.iter().max_by_key(|i| p.prio[**i]).unwrap()
        } else {
            let r = next_rand(s);
            runnable[(r % runnable.len() as u64) as usize]
        };
        s.decisions.push(pick as u8);
        Some(pick)
    }

    fn deadlock_exit(s: &mut State) -> ! {
        s.deadlock = true;
        let blocked: Vec<String> = s
            .st
            .iter()
            .enumerate()
            .map(|(i, st)| match st {
                St::Blocked(a) => format!("t{} blocked on {:#x}", i, a),
                St::Finished => format!("t{} finished", i),
                St::Runnable => format!("t{} runnable", i),
            })
            .collect();
        let tail: Vec<String> = s
            .events
            .iter()
            .rev()
            .take(40)
            .rev()
            .map(|(t, e, m, sh, md)| format!("t{}:{:?}:m{}:s{}:{}", t, e, m, sh, md.ch()))
            .collect();
        let line = format!(
            "{{\"ev\":\"sched_deadlock\",\"threads\":{},\"decisions\":{},\"tail\":{}}}",
            json_str(&blocked.join("; ")),
            json_str(
                &s.decisions
                    .iter()
                    .map(|d| d.to_string())
                    .collect::<Vec<_>>()
                    .join("")
            ),
            json_str(&tail.join(" "))
        );
        {
            let mut m = monitor().lock().unwrap_or_else(|e| e.into_inner());
            log_line(&mut m, &line);
        }
        eprintln!("VERIF-DEADLOCK scheduler: no runnable thread {}", line);
        println!("{{\"sched_deadlock\":true,\"detail\":{}}}", json_str(&line));
        dump_stats("sched_deadlock");
        std::process::exit(EXIT_DEADLOCK);
    }

    fn ord(map: u64) -> u64 {
        map_info(map).map(|i| i.ordinal).unwrap_or(999)
    }

    pub fn note(ev: Ev, map: u64, shard: u32, mode: Mode) {
        let me = match ME.with(|m| m.get()) {
            Some(m) => m,
            None => return,
        };
        let mut g = STATE.lock().unwrap();
        if let Some(s) = g.as_mut() {
            s.events.push((me, ev, ord(map), shard, mode));
        }
    }

    /// Hand the token to a chosen thread and wait until it comes back.
    pub fn yield_point(ev: Ev, map: u64, shard: u32, mode: Mode) {
        let me = match ME.with(|m| m.get()) {
            Some(m) => m,
            None => return,
        };
        let mut g = STATE.lock().unwrap();
        {
            let s = match g.as_mut() {
                Some(s) => s,
                None => return,
            };
            s.hooks += 1;
            s.events.push((me, ev, ord(map), shard, mode));
            match choose(s) {
                Some(n) => s.current = n,
                None => deadlock_exit(s),
            }
        }
        CV.notify_all();
        while g.as_ref().map(|s| s.current != me).unwrap_or(false) {
            g = CV.wait(g).unwrap();
        }
    }

    pub fn acquire_loop<L: RawOps>(l: &L, mode: Mode, map: u64, shard: u32) {
        let me = ME.with(|m| m.get()).unwrap();
        loop {
            if l.raw_try(mode) {
                let mut g = STATE.lock().unwrap();
                if let Some(s) = g.as_mut() {
                    s.events.push((me, Ev::Acquired, ord(map), shard, mode));
                }
                return;
            }
            let mut g = STATE.lock().unwrap();
            {
                let s = g.as_mut().unwrap();
                s.st[me] = St::Blocked(l.addr());
                s.events.push((me, Ev::Blocked, ord(map), shard, mode));
                match choose(s) {
                    Some(n) => s.current = n,
                    None => deadlock_exit(s),
                }
            }
            CV.notify_all();
            while g.as_ref().map(|s| s.current != me).unwrap_or(false) {
                g = CV.wait(g).unwrap();
            }
        }
    }

    pub fn on_release(addr: usize) {
        let mut g = STATE.lock().unwrap();
        if let Some(s) = g.as_mut() {
            for st in s.st.iter_mut() {
                if *st == St::Blocked(addr) {
                    *st = St::Runnable;
                }
            }
        }
    }

    fn thread_main(idx: usize, f: Box<dyn FnOnce() + Send>) {
        ME.with(|m| m.set(Some(idx)));
        {
            let mut g = STATE.lock().unwrap();
            while g.as_ref().map(|s| s.current != idx).unwrap_or(false) {
                g = CV.wait(g).unwrap();
            }
        }
        f();
        ME.with(|m| m.set(None));
        let mut g = STATE.lock().unwrap();
        if let Some(s) = g.as_mut() {
            s.st[idx] = St::Finished;
            // any thread blocked may now proceed only if a lock was released, which
            // on_release handled; pick the next runnable
            if s.st.iter().all(|x| *x == St::Finished) {
                s.current = usize::MAX;
            } else {
                match choose(s) {
                    Some(n) => s.current = n,
                    None => deadlock_exit(s),
                }
            }
        }
        drop(g);
        CV.notify_all();
    }

    /// Run the closures on registered threads under the serialising scheduler.
    /// `pct_depth` = None → uniform random choice at every hook point;
    /// Some(d) → PCT-style priorities with d change points within `est_steps`.
    pub fn run(
        seed: u64,
        pct_depth: Option<usize>,
        est_steps: usize,
        replay: Option<Vec<u8>>,
        bodies: Vec<Box<dyn FnOnce() + Send>>,
    ) -> Trace {
        let n = bodies.len();
        let mut st = State {
            st: vec![St::Runnable; n],
            current: usize::MAX - 1,
            rng: seed.wrapping_mul(0x9E37_79B9_7F4A_7C15) | 1,
            pct: None,
            decisions: Vec::new(),
            events: Vec::new(),
            hooks: 0,
            deadlock: false,
            replay,
        };
        if let Some(d) = pct_depth {
            let mut prio: Vec<u64> = Vec::new();
            let mut order: Vec<u64> = (0..n as u64).collect();
            // random permutation
            for i in (1..n).rev() {
                let r = next_rand(&mut st) as usize % (i + 1);
                order.swap(i, r);
            }
            for i in 0..n {
                prio.push(1000 + order[i]);
            }
            let mut cps = Vec::new();
            for _ in 0..d {
                cps.push(next_rand(&mut st) as usize % est_steps.max(1));
            }
            st.pct = Some(Pct {
                prio,
                change_points: cps,
                next_low: 999,
            });
        }
        // first thread to run
        let first = choose(&mut st).unwrap_or(0);
        st.current = first;
        *STATE.lock().unwrap() = Some(st);
        ACTIVE.store(true, Ordering::SeqCst);
        let mut handles = Vec::new();
        for (i, b) in bodies.into_iter().enumerate() {
            handles.push(
                std::thread::Builder::new()
                    .name(format!("sched-{}", i))
                    .stack_size(16 << 20)
                    .spawn(move || thread_main(i, b))
                    .unwrap(),
            );
        }
        CV.notify_all();
        for h in handles {
            let _ = h.join();
        }
        ACTIVE.store(false, Ordering::SeqCst);
        let s = STATE.lock().unwrap().take().unwrap();
        Trace {
            events: s.events,
            decisions: s.decisions,
            hooks: s.hooks,
            deadlock: s.deadlock,
        }
    }
}
