import pytest

@pytest.fixture
def a(b):
    return 1

@pytest.fixture
def b(a, c):
    return 1

@pytest.fixture
def c(a):
    return 1

