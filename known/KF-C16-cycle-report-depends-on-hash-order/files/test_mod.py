def test_t(a):
    pass
