import pytest, pytest_asyncio


@pytest_asyncio.fixture
def fx7(