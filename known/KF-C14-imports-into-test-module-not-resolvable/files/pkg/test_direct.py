from .m0 import *

def test_p_f0(f0):
    pass
