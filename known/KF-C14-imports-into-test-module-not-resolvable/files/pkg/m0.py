import pytest

@pytest.fixture
def f0() -> T1:
    """DOC1 for f0."""
    return 1

