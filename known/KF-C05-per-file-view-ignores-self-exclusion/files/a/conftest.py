import pytest
from typing import Iterator

@pytest.fixture
def fx_a(fx_a) -> T2:
    """DOC2 for fx_a."""
    return 2

