import pytest
from typing import Iterator

def test_p(fx_a):
    pass

@pytest.mark.usefixtures()
def test_zz_view_probe():
    pass
