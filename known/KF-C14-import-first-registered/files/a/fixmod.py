import pytest
from typing import Iterator

@pytest.fixture
def shared() -> T2:
    """DOC2 for shared."""
    return 2

