from .fixmod import *
