import pytest

@pytest.fixture
def db(db):
    return db
