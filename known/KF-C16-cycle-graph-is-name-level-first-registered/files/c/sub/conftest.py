import pytest

@pytest.fixture
def over(over):
    return over

