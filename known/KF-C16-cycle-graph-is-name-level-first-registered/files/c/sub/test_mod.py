def test_t(over):
    pass
