import pytest

@pytest.fixture
def over():
    return 1

