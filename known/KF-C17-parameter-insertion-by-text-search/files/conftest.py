import pytest

@pytest.fixture
def fa():
    return 1

@pytest.fixture
def fb():
    return 1

@pytest.fixture
def fc():
    return 1

@pytest.fixture
def settings():
    return 1

