import pytest

def test_first() -> None:
    v = fa
    pass

def test_second(fb):
    pass

def test_third(
    fb,
):
    w = fa.x
    pass
