import pytest
from typing import Iterator

@pytest.fixture
def res(
    res,
) -> T2:
    """DOC2 for res."""
    return 2

