def test_p(fx_a):
    pass
