import pytest
from typing import Iterator

@pytest.fixture
def fx_a() -> T1:
    """DOC1 for fx_a."""
    return 1

