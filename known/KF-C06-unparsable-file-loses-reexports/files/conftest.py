from .fxm import *
