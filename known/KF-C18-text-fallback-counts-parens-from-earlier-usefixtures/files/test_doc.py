import pytest

@pytest.mark.usefixtures('fa')
def test_x():
    pass

@pytest.fixture
def fx6(fa, 