import pytest
from typing import Iterator

@pytest.fixture
def shared() -> T1:
    """DOC1 for shared."""
    return 1

