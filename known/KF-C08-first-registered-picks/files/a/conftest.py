from .fixmod import *
