from .fixmod import *
