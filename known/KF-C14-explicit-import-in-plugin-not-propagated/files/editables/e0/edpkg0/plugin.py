from .helpers import ed0_fix_h
import pytest

@pytest.fixture
def ed0_fix():
    """DOC5"""
    return 5

