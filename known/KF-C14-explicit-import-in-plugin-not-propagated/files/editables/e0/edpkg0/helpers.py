import pytest

@pytest.fixture
def ed0_fix_h():
    """DOC6"""
    return 6

