import pytest

@pytest.fixture
def ed0_fix_h():
    """DOC15"""
    return 15

