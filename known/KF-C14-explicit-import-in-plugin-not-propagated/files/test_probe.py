def test_p_ed0_fix(ed0_fix):
    pass

def test_p_ed0_fix_h(ed0_fix_h):
    pass

def test_p_not_a_plugin(not_a_plugin):
    pass

def test_p_tp0(tp0):
    pass

def test_p_tp0_notloaded(tp0_notloaded):
    pass

def test_p_tp1(tp1):
    pass

def test_p_up_fix(up_fix):
    pass

def test_p_ws_sib_helper_fx(ws_sib_helper_fx):
    pass

def test_p_ws_sibling_fx(ws_sibling_fx):
    pass

