import pytest

