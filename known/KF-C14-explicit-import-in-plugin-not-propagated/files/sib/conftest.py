from .sib_helper import *
import pytest

@pytest.fixture
def ws_sibling_fx():
    """DOC9"""
    return 9

