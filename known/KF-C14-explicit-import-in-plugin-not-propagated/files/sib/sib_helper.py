import pytest

@pytest.fixture
def ws_sib_helper_fx():
    """DOC8"""
    return 8

