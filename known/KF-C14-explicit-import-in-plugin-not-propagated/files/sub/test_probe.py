def test_p_builtin_nested(builtin_nested):
    pass

def test_p_builtin_tmp(builtin_tmp):
    pass

def test_p_ed0_fix(ed0_fix):
    pass

def test_p_ed0_fix_h(ed0_fix_h):
    pass

def test_p_not_a_plugin(not_a_plugin):
    pass

def test_p_tp0(tp0):
    pass

def test_p_tp0_deep(tp0_deep):
    pass

def test_p_tp0_intest(tp0_intest):
    pass

def test_p_tp0_sub(tp0_sub):
    pass

def test_p_tp1(tp1):
    pass

def test_p_tp1_deep(tp1_deep):
    pass

def test_p_tp1_intest(tp1_intest):
    pass

def test_p_tp1_sub(tp1_sub):
    pass

def test_p_tp2(tp2):
    pass

def test_p_tp2_h(tp2_h):
    pass

