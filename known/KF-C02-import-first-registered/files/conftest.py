import pytest
from typing import Iterator

@pytest.fixture
def res() -> T1:
    """DOC1 for res."""
    return 1

