from .chainmod import *
