import pytest
from typing import Iterator

@pytest.fixture
def res() -> T2:
    """DOC2 for res."""
    return 2

