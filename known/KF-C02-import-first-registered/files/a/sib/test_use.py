def test_s(res):
    pass
