import pytest
from typing import Iterator

@pytest.fixture
def res(res) -> T3:
    """DOC3 for res."""
    return 3

