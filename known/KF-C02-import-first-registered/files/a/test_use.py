def test_use(res):
    pass
