import pytest

@pytest.fixture
def db(): return 1  # one-line definition

mocker = pytest.fixture()(lambda: 1)

@pytest.fixture
def user(db):  # é before nothing
    return db

@pytest.fixture
def two(db, user): return 1
