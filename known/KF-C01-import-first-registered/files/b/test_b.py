def test_b(shared):
    pass
