import pytest

def test_a(shared):
    pass

@pytest.mark.usefixtures("shared")
def test_m():
    pass
