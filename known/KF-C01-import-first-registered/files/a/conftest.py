from .fixmod import *
