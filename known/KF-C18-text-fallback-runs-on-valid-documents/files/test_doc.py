import pytest

def helper(a):
    def test_inner(q):
        pass
    return a
