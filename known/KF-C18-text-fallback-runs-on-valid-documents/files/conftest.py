import pytest

@pytest.fixture
def fa():
    return 1

@pytest.fixture(scope="session")
def fs():
    return 1
