import pytest

LABEL = 'é'

@pytest.mark.usefixtures(r"db", """user""")
def test_a(): pass

@pytest.mark.parametrize("db,user", [(1, 2)], indirect=True)
def test_b(db, user): pass

def test_c(db): x = 'é'; y = [db, 'é', user]

def test_d(é_param, user): pass  # é
