"""Running and parsing the CLI of the real binary."""
import json, os, re, subprocess


def run_cli(binary, args, env=None, timeout=120):
    e = dict(os.environ)
    e["NO_COLOR"] = "1"
    e.pop("VIRTUAL_ENV", None)
    e.setdefault("RUST_BACKTRACE", "0")
    if env:
        e.update(env)
    p = subprocess.run([binary] + args, stdout=subprocess.PIPE, stderr=subprocess.PIPE, env=e, timeout=timeout)
    return p.returncode, p.stdout.decode("utf-8", "replace"), p.stderr.decode("utf-8", "replace")


FILE_RE = re.compile(r"^(.+\.py) \((\d+) fixtures\)$")
FIX_RE = re.compile(r"^(\S+) \((.*)\)$")
ANSI = re.compile(r"\x1b\[[0-9;]*m")


def parse_tree(out):
    """returns {(relpath, fixture): {'count': n, 'autouse': bool, 'raw': str}} and the list of file entries"""
    res = {}
    files = {}
    stack = []   # path components by depth
    cur_file = None
    lines = ANSI.sub("", out).split("\n")
    for ln in lines[2:] if lines and lines[0].startswith("Fixtures tree for:") else lines:
        if not ln.strip() or ln.startswith("No fixtures found"):
            continue
        # split prefix units
        i = 0
        depth = 0
        while ln[i:i + 4] in ("│   ", "    "):
            i += 4
            depth += 1
        conn = ln[i:i + 4]
        if conn in ("├── ", "└── "):
            i += 4
            depth += 1
        label = ln[i:]
        m = FILE_RE.match(label)
        if m:
            stack = stack[:depth] + [m.group(1)]
            cur_file = "/".join(stack)
            files[cur_file] = int(m.group(2))
            cur_depth = depth
            continue
        if label.endswith("/") or label.endswith("/ (editable install)"):
            name = label.split("/")[0]
            stack = stack[:depth] + [name]
            cur_file = None
            continue
        m = FIX_RE.match(label)
        if m and cur_file is not None:
            info = m.group(2)
            cnt = 0
            mm = re.search(r"used (\d+) time", info)
            if mm:
                cnt = int(mm.group(1))
            res[(cur_file, m.group(1))] = {"count": cnt, "autouse": "autouse=True" in info, "raw": info}
    return res, files
