"""G-src: single Python sources in the supported grammar, with a feature vector per source."""
import random

NON_ASCII = ["é", "ß", "中", "😀", "ü", "→"]


class Src:
    def __init__(self, rng, unicode_noise=0.0, crlf=False, tabs=False):
        self.rng = rng
        self.lines = []
        self.features = set()
        self.unicode_noise = unicode_noise
        self.crlf = crlf
        self.tabs = tabs
        self.uid = 0
        self.fixture_names = []

    def k(self):
        self.uid += 1
        return self.uid

    def noise_comment(self):
        if self.rng.random() < self.unicode_noise:
            self.features.add("non_ascii_comment")
            return "  # " + "".join(self.rng.choice(NON_ASCII) for _ in range(self.rng.randint(1, 3)))
        return ""

    def emit(self, s=""):
        for l in s.split("\n"):
            self.lines.append(l)

    def text(self):
        t = "\n".join(self.lines) + "\n"
        if self.tabs:
            t = t.replace("    ", "\t")
        if self.crlf:
            t = t.replace("\n", "\r\n")
        return t


ANNOTS = ["int", "str", "T.Client", "list[int]", "dict[str, int]", "Optional[int]", "int | None", '"Fwd"', "a.b.C", "tuple[int, str]"]
GEN_WRAP = ["Iterator[{}]", "Generator[{}, None, None]", "AsyncIterator[{}]", "t.Iterator[{}]", "Iterable[{}]"]


def gen_fixture(s, indent="", in_class=False, name=None, deps=None):
    rng = s.rng
    k = s.k()
    name = name or (f"fx{k}" if rng.random() > 0.1 else f"test_fx{k}")
    fn = name
    deco_kind = rng.choice(["pytest.fixture", "pytest.fixture()", "fixture", "fixture()", "pytest_asyncio.fixture", "args"])
    broad = name.startswith("test_") and rng.random() < 0.6      # a fixture named like a test, with a broad scope
    if broad:
        deco_kind = "args"
    args = []
    scope = None
    autouse = False
    if deco_kind == "args":
        base = rng.choice(["pytest.fixture", "fixture", "pytest_asyncio.fixture"])
        if broad or rng.random() < 0.5:
            scope = rng.choice(["module", "package", "session"]) if broad else rng.choice(["function", "class", "module", "package", "session"])
            args.append(f'scope="{scope}"' if rng.random() < 0.7 else f"scope='{scope}'")
        if rng.random() < 0.3:
            autouse = rng.random() < 0.7
            args.append(f"autouse={autouse}")
        if rng.random() < 0.3:
            fn = f"_impl{k}"
            args.append(f'name="{name}"')
        if rng.random() < 0.2:
            args.append("params=[1, 2]")
        rng.shuffle(args)
        deco = f"@{base}({', '.join(args)})"
        s.features.add("deco_args:" + ",".join(sorted(a.split("=")[0] for a in args)))
    else:
        deco = "@" + deco_kind
    s.features.add("deco:" + deco_kind)
    is_async = rng.random() < 0.25
    # parameters
    deps = list(deps if deps is not None else rng.sample(s.fixture_names, min(len(s.fixture_names), rng.randint(0, 3))))
    params = []
    if in_class:
        params.append("self")
    if rng.random() < 0.2:
        params.append("request")
    kind = rng.choice(["plain", "plain", "annotated", "posonly", "kwonly", "mixed"])
    s.features.add("params:" + kind + ("+deps" if deps else ""))
    plist = []
    for i, d in enumerate(deps):
        ann = f": {rng.choice(ANNOTS)}" if kind in ("annotated", "mixed") and rng.random() < 0.6 else ""
        plist.append(d + ann)
    if kind == "posonly" and plist:
        plist = plist[:1] + ["/"] + plist[1:]
    if kind in ("kwonly", "mixed") and len(plist) >= 1:
        cut = rng.randint(0, len(plist) - 1)
        plist = plist[:cut] + ["*"] + plist[cut:]
    params += plist
    # body shape
    yield_kind = rng.choice(["none", "none", "plain", "if", "for", "while", "with", "async_with", "async_for", "try", "except", "else", "finally", "nested_if_with", "after_try", "after_if", "yield_from_multiline", "yield_multiline"])
    if yield_kind in ("async_with", "async_for") and not is_async:
        is_async = True
    if yield_kind == "yield_from_multiline" and is_async:
        yield_kind = "yield_multiline"       # `yield from` is not allowed in an async generator
    is_gen = yield_kind != "none"
    s.features.add("yield:" + yield_kind + (":async" if is_async else ""))
    ret = ""
    if rng.random() < 0.7:
        base_t = rng.choice(ANNOTS)
        if is_gen and rng.random() < 0.8:
            ret = " -> " + rng.choice(GEN_WRAP).format(base_t)
        else:
            ret = " -> " + base_t
        s.features.add("ret:" + ("gen_wrapped" if "[" in ret and is_gen else "plain") + (":fwd" if '"' in ret else ""))
    multiline = rng.random() < 0.3 and len([p for p in params if p not in ("/", "*")]) >= 1
    s.emit(indent + deco + s.noise_comment())
    if rng.random() < 0.2:
        s.emit(indent + rng.choice(["@functools.wraps(x)", "@other.decorator", "@pytest.mark.slow"]))
        s.features.add("extra_decorator")
    d = "async def" if is_async else "def"
    if multiline:
        s.features.add("multiline_sig" + (":trailing_comma" if rng.random() < 0.5 else ""))
        tc = "," if "multiline_sig:trailing_comma" in s.features and params[-1] not in ("/",) else ""
        ci = "" if (indent == "" and rng.random() < 0.25) else "    "
        if ci == "":
            s.features.add("continuation_at_column_0")
        s.emit(f"{indent}{d} {fn}(")
        for i, p in enumerate(params):
            last = i == len(params) - 1
            s.emit(f"{indent}{ci}{p}{(',' if not last else tc)}" + s.noise_comment())
        s.emit(f"{indent}){ret}:")
    else:
        s.emit(f"{indent}{d} {fn}({', '.join(params)}){ret}:" + s.noise_comment())
    bi = indent + "    "
    doc = rng.choice(["none", "one", "multi", "indented", "blank_first", "single_quotes", "raw", "ws_only_line", "deeper_first"])
    s.features.add("doc:" + doc)
    if doc == "one":
        s.emit(f'{bi}"""Doc {k} of {name}."""')
    elif doc == "multi":
        s.emit(f'{bi}"""Doc {k}.\n\n{bi}More text.\n{bi}    indented more\n{bi}"""')
    elif doc == "indented":
        s.emit(f'{bi}"""\n{bi}    Deep {k}.\n{bi}  less\n{bi}"""')
    elif doc == "blank_first":
        s.emit(f'{bi}"""\n\n{bi}Doc {k}\n\n{bi}"""')
    elif doc == "single_quotes":
        s.emit(f"{bi}'Doc {k} single'")
    elif doc == "ws_only_line":
        s.emit(f'{bi}"""Doc {k}.\n{" " * rng.randint(1, 3)}\n{bi}Details:\n{bi}    nested line\n{bi}"""')
    elif doc == "deeper_first":
        s.emit(f'{bi}"""\n{bi}        Deep first {k}\n{bi}    middle\n{bi}  shallow\n{bi}"""')
    elif doc == "raw":
        s.emit(f'{bi}r"""Raw {k} \\d+"""')
    y = f"yield {k}"
    if yield_kind == "none":
        s.emit(f"{bi}return {k}")
    elif yield_kind == "plain":
        s.emit(f"{bi}x = 1\n{bi}{y}\n{bi}x = 2")
    elif yield_kind == "if":
        s.emit(f"{bi}if x:\n{bi}    pass\n{bi}else:\n{bi}    {y}")
    elif yield_kind == "for":
        s.emit(f"{bi}for i in range(2):\n{bi}    {y}")
    elif yield_kind == "while":
        s.emit(f"{bi}while x:\n{bi}    {y}\n{bi}    break")
    elif yield_kind == "with":
        s.emit(f"{bi}with open(p) as fh:\n{bi}    {y}")
    elif yield_kind == "async_with":
        s.emit(f"{bi}async with ctx() as c:\n{bi}    {y}")
    elif yield_kind == "async_for":
        s.emit(f"{bi}async for i in it():\n{bi}    {y}")
    elif yield_kind == "try":
        s.emit(f"{bi}try:\n{bi}    {y}\n{bi}finally:\n{bi}    pass")
    elif yield_kind == "except":
        s.emit(f"{bi}try:\n{bi}    pass\n{bi}except ValueError:\n{bi}    {y}")
    elif yield_kind == "else":
        s.emit(f"{bi}try:\n{bi}    pass\n{bi}except ValueError:\n{bi}    pass\n{bi}else:\n{bi}    {y}")
    elif yield_kind == "finally":
        s.emit(f"{bi}try:\n{bi}    pass\n{bi}finally:\n{bi}    {y}")
    elif yield_kind == "after_try":
        s.emit(f"{bi}try:\n{bi}    c = connect()\n{bi}except OSError:\n{bi}    c = None\n{bi}{y}")
    elif yield_kind == "after_if":
        s.emit(f"{bi}if x:\n{bi}    c = 1\n{bi}for q in ():\n{bi}    pass\n{bi}with a:\n{bi}    pass\n{bi}{y}")
    elif yield_kind == "yield_from_multiline":
        # the recorded line is the line of the `yield` keyword, not of the operand
        s.emit(f"{bi}yield from (\n{bi}    make_items({k})\n{bi})")
    elif yield_kind == "yield_multiline":
        s.emit(f"{bi}yield (\n{bi}    {k}\n{bi})\n{bi}x = 3")
    elif yield_kind == "nested_if_with":
        s.emit(f"{bi}if x:\n{bi}    with a as b:\n{bi}        for q in b:\n{bi}            {y}")
    if rng.random() < 0.15:
        s.emit(f"{bi}def inner():\n{bi}    yield 5\n{bi}lam = lambda: (yield)")
        s.features.add("nested_def_with_yield")
    s.emit("")
    s.fixture_names.append(name)
    return name


STR_FORMS = ['"{}"', "'{}'", 'r"{}"', '"""{}"""', "u'{}'", '"{}" ""']


def str_lit(s, name, plain_only):
    if plain_only or s.rng.random() < 0.75:
        return s.rng.choice(['"{}"', "'{}'"]).format(name)
    f = s.rng.choice(STR_FORMS[2:])
    s.features.add("string_form:" + f.replace("{}", "x"))
    return f.format(name)


def gen_test(s, indent="", in_class=False, plain_strings=True):
    rng = s.rng
    k = s.k()
    pool = s.fixture_names + ["unknown_fx"]
    marks = []
    if rng.random() < 0.3:
        ns = rng.sample(pool, min(len(pool), rng.randint(1, 3)))
        form = rng.choice(["pytest.mark.usefixtures", "mark.usefixtures"])
        if rng.random() < 0.3 and len(ns) > 1:
            s.emit(f"{indent}@{form}(")
            ci = "" if (indent == "" and rng.random() < 0.25) else "    "
            for n in ns:
                s.emit(f"{indent}{ci}{str_lit(s, n, plain_strings)}," + s.noise_comment())
            s.emit(f"{indent})")
            s.features.add("usefixtures:multiline")
        else:
            s.emit(f"{indent}@{form}({', '.join(str_lit(s, n, plain_strings) for n in ns)})" + s.noise_comment())
        s.features.add("usefixtures:function")
    params = ["self"] if in_class else []
    reqs = rng.sample(pool, min(len(pool), rng.randint(0, 3)))
    if rng.random() < 0.25 and reqs:
        n = reqs[0]
        ind = rng.choice(["True", "list", "none"])
        if ind == "True":
            if rng.random() < 0.4 and len(reqs) > 1:
                s.emit(f'{indent}@pytest.mark.parametrize("{reqs[0]}{rng.choice([",", ", ", " ,"])}{reqs[1]}", [(1, 2)], indirect=True)')
                s.features.add("indirect:true_multi")
            else:
                s.emit(f'{indent}@pytest.mark.parametrize({str_lit(s, n, True)}, [1, 2], indirect=True)')
                s.features.add("indirect:true")
        elif ind == "list":
            other = "val"
            sep = rng.choice([",", ", ", " , ", ",  "])
            names_s = f"{other}{sep}{n}" if rng.random() < 0.5 else f"{n}{sep}{other}"
            s.emit(f'{indent}@pytest.mark.parametrize("{names_s}", [(1, 2)], indirect=[{str_lit(s, n, plain_strings)}])')
            reqs.append(other)
            s.features.add("indirect:list")
        else:
            s.emit(f'{indent}@pytest.mark.parametrize("{n}", [1, 2])')
            s.features.add("parametrize:no_indirect")
    kind = rng.choice(["plain", "annotated", "kwonly", "posonly"])
    plist = []
    for r in reqs:
        plist.append(r + (f": {rng.choice(ANNOTS)}" if kind == "annotated" and rng.random() < 0.7 else ""))
    if kind == "kwonly" and plist:
        plist = ["*"] + plist
    if kind == "posonly" and plist:
        plist = plist[:1] + ["/"] + plist[1:]
    params += plist
    s.features.add("test_params:" + kind)
    is_async = rng.random() < 0.2
    d = "async def" if is_async else "def"
    ret = " -> None" if rng.random() < 0.3 else ""
    if rng.random() < 0.25 and len(params) >= 1:
        s.emit(f"{indent}{d} test_t{k}(")
        ci = "" if (indent == "" and rng.random() < 0.25) else "    "
        for i, p in enumerate(params):
            s.emit(f"{indent}{ci}{p}," + s.noise_comment())
        s.emit(f"{indent}){ret}:")
        s.features.add("test:multiline_sig")
    else:
        s.emit(f"{indent}{d} test_t{k}({', '.join(params)}){ret}:" + s.noise_comment())
    s.emit(f"{indent}    pass")
    s.emit("")


def gen_source(rng, unicode_noise=0.0, crlf=None, tabs=None, plain_strings=True, redefine=0.0):
    s = Src(rng, unicode_noise=unicode_noise, crlf=(rng.random() < 0.15 if crlf is None else crlf),
            tabs=(rng.random() < 0.1 if tabs is None else tabs))
    if s.crlf:
        s.features.add("crlf")
    if s.tabs:
        s.features.add("tabs")
    s.emit("import pytest, pytest_asyncio, functools")
    s.emit("from pytest import fixture, mark")
    s.emit("import typing as t")
    s.emit("from typing import *")
    if rng.random() < s.unicode_noise:
        s.emit(f"LABEL = '{rng.choice(NON_ASCII) * 3}'")
    s.emit("")
    if rng.random() < 0.25:
        ns = ["m1", "m2"]
        form = rng.choice(["single", "list", "tuple", "ann"])
        call = lambda n: f"pytest.mark.usefixtures({str_lit(s, n, plain_strings)})"
        if form == "single":
            s.emit(f"pytestmark = {call(ns[0])}")
        elif form == "list":
            s.emit(f"pytestmark = [{call(ns[0])}, pytest.mark.slow, {call(ns[1])}]")
        elif form == "tuple":
            s.emit(f"pytestmark = ({call(ns[0])}, {call(ns[1])})")
        else:
            s.emit(f"pytestmark: list = [{call(ns[0])}]")
        s.features.add("pytestmark:" + form)
        s.emit("")
    n_items = rng.randint(3, 9)
    for _ in range(n_items):
        r = rng.random()
        if r < 0.4:
            olds = [n for n in s.fixture_names if n.startswith("fx")]
            gen_fixture(s, name=(rng.choice(olds) if olds and rng.random() < redefine else None))
        elif r < 0.7:
            gen_test(s, plain_strings=plain_strings)
        elif r < 0.8:
            k = s.k()
            rr = rng.random()
            if rr < 0.35:
                s.emit(f"asg{k} = pytest.fixture()(_helper)")
            elif rr < 0.6:
                s.emit(f"asg{k} = pytest.fixture(scope=\"module\")(other.thing)")
            elif rr < 0.85:
                # chained targets: pytest sees one fixture per target, each with its own name token
                s.emit(f"asg{k} = asg{k}_alias = pytest.fixture()(_helper)")
                s.fixture_names.append(f"asg{k}_alias")
                s.features.add("assignment_fixture:chained")
            else:
                s.emit(f"(asg{k}) = pytest.fixture()(_helper)")
                s.features.add("assignment_fixture:parenthesised")
            s.fixture_names.append(f"asg{k}")
            s.features.add("assignment_fixture")
            s.emit("")
        elif r < 0.9:
            k = s.k()
            if rng.random() < 0.4:
                s.emit(f'@pytest.mark.usefixtures({str_lit(s, rng.choice(s.fixture_names + ["zz"]), plain_strings)})')
                s.features.add("usefixtures:class")
            s.emit(f"class TestC{k}:")
            if rng.random() < 0.3:
                s.emit(f'    pytestmark = pytest.mark.usefixtures({str_lit(s, "cm", plain_strings)})')
                s.features.add("pytestmark:class")
            for _ in range(rng.randint(1, 3)):
                if rng.random() < 0.4:
                    olds = [n for n in s.fixture_names if n.startswith("fx")]
                    gen_fixture(s, indent="    ", in_class=True, name=(rng.choice(olds) if olds and rng.random() < redefine else None))
                else:
                    gen_test(s, indent="    ", in_class=True, plain_strings=plain_strings)
            s.features.add("class")
        else:
            k = s.k()
            s.emit(f"def helper{k}(a, b=1):\n    x = 'fixture'\n    # @pytest.fixture\n    def test_inner(q):\n        pass\n    return x\n")
            s.emit(f"class Plain{k}(Base):\n    attr = 1\n")
            s.features.add("helpers")
            if rng.random() < 0.5:
                # other attributes of the pytest module are not fixture decorators
                deco = rng.choice(["@pytest.hookimpl", "@pytest.hookimpl(tryfirst=True)", "@pytest.hookspec", "@pytest.hookspec(firstresult=True)",
                                   "@pytest_asyncio.is_async_test", "@pytest.mark.fixture", "@other.fixture"])
                arg = rng.choice(s.fixture_names + ["config", "item"])
                s.emit(f"{deco}\ndef pytest_hook_{k}({arg}, session):\n    return {arg}\n")
                s.features.add("not_a_fixture_decorator:" + deco.split("(")[0])
    return s
