"""Issue every request kind the server supports at a position / document (shared by C11, C12)."""


def all_position_requests(srv, path, line, char, timeout=30.0):
    """returns list of request records"""
    recs = []
    recs.append(srv.definition(path, line, char, timeout=timeout))
    recs.append(srv.hover(path, line, char, timeout=timeout))
    recs.append(srv.references(path, line, char, timeout=timeout))
    recs.append(srv.implementation(path, line, char, timeout=timeout))
    recs.append(srv.completion(path, line, char, timeout=timeout))
    pr = srv.prepare_call_hierarchy(path, line, char, timeout=timeout)
    recs.append(pr)
    items = pr.get("result") or []
    if isinstance(items, list) and items:
        recs.append(srv.incoming(items[0], timeout=timeout))
        recs.append(srv.outgoing(items[0], timeout=timeout))
    return recs


def all_document_requests(srv, path, timeout=30.0, diagnostics=None):
    recs = []
    recs.append(srv.document_symbol(path, timeout=timeout))
    recs.append(srv.code_lens(path, timeout=timeout))
    recs.append(srv.inlay_hint(path, timeout=timeout))
    recs.append(srv.workspace_symbol("", timeout=timeout))
    if diagnostics:
        for d in diagnostics[:5]:
            recs.append(srv.code_action(path, d["range"], [d], timeout=timeout))
    return recs
