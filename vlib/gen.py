"""Seeded workload generators (workspaces, sources, histories)."""
import json, os, random, re

from .pymodel import WorkspaceModel

PYVER = "python3.11"


class WS:
    def __init__(self, root):
        self.root = root
        self.files = {}            # rel -> text
        self.plugin_rel = set()
        self.third_party_rel = set()
        self.site_rel = []
        self.features = set()
        self.next_id = 0
        self.spec = {}

    def uid(self):
        self.next_id += 1
        return self.next_id

    def abs(self, rel):
        return os.path.join(self.root, rel)

    def abs_files(self):
        return {self.abs(r): t for r, t in self.files.items()}

    def model(self):
        return WorkspaceModel(self.abs_files(),
                              plugin_files={self.abs(r) for r in self.plugin_rel},
                              third_party_files={self.abs(r) for r in self.third_party_rel},
                              site_dirs=[self.abs(r) for r in self.site_rel])

    def py_files(self):
        return [r for r in self.files if r.endswith(".py")]

    def workspace_py(self):
        return [r for r in self.py_files() if not r.startswith(".venv/")]


def fixture_src(ws, name, rng, self_param=False, scope=None, extra_deps=(), multiline=False, func_name=None,
                autouse=False, gen=None, doc=True, rtype=True):
    """source of one fixture definition with a unique identity token"""
    k = ws.uid()
    args = []
    if self_param:
        args.append(name)
    args += list(extra_deps)
    deco_args = []
    if func_name and func_name != name:
        deco_args.append(f'name="{name}"')
    if scope and scope != "function":
        deco_args.append(f'scope="{scope}"')
    if autouse:
        deco_args.append("autouse=True")
    style = rng.choice(["pytest.fixture", "pytest.fixture", "pytest.fixture()"]) if not deco_args else "pytest.fixture"
    deco = "@" + style if not deco_args else f"@pytest.fixture({', '.join(deco_args)})"
    fn = func_name or name
    is_gen = rng.random() < 0.25 if gen is None else gen
    ret = ""
    if rtype:
        ret = f" -> Iterator[T{k}]" if is_gen else f" -> T{k}"
    d = "async def" if rng.random() < 0.12 else "def"
    if multiline and args:
        sig = f"{d} {fn}(\n" + "".join(f"    {a},\n" for a in args) + f"){ret}:"
    else:
        sig = f"{d} {fn}({', '.join(args)}){ret}:"
    body = []
    if doc:
        body.append(f'    """DOC{k} for {name}."""')
    if is_gen:
        body.append(f"    yield {k}")
    else:
        body.append(f"    return {k}")
    return deco + "\n" + sig + "\n" + "\n".join(body) + "\n", k


STDLIB_LIKE = ["http", "logging", "types", "string", "random", "json", "email", "time", "io", "enum"]

HEADER = "import pytest\nfrom typing import Iterator\n\n"


def probe_src(ws, names, rng, local_defs=None, kinds=None):
    """a test module requesting every name in several ways"""
    out = [HEADER]
    marks = []
    kinds = kinds or ["param", "usefixtures", "class_mark", "pytestmark", "indirect", "fixture_param", "kwonly", "method"]
    local_at_end = bool(local_defs) and rng.random() < 0.4
    if local_defs and not local_at_end:
        out.append(local_defs)
    pm = []
    for n in names:
        ks = [k for k in kinds if rng.random() < 0.6] or ["param"]
        if "param" not in ks and rng.random() < 0.8:
            ks.append("param")
        for k in ks:
            u = ws.uid()
            if k == "param":
                out.append(f"def test_p{u}({n}):\n    pass\n\n")
            elif k == "kwonly":
                out.append(f"def test_k{u}(*, {n}):\n    pass\n\n")
            elif k == "usefixtures":
                r_ = rng.random()
                if r_ < 0.3:
                    out.append(f'@pytest.mark.usefixtures(\n    "{n}",\n)\ndef test_u{u}():\n    pass\n\n')
                elif r_ < 0.45:
                    # one name twice on one line: two usages that differ in the column only
                    out.append(f'@pytest.mark.usefixtures("{n}", "{n}")\ndef test_u{u}():\n    pass\n\n')
                else:
                    out.append(f'@pytest.mark.usefixtures("{n}")\ndef test_u{u}():\n    pass\n\n')
            elif k == "class_mark":
                out.append(f'@pytest.mark.usefixtures("{n}")\nclass TestC{u}:\n    def test_m(self):\n        pass\n\n')
            elif k == "method":
                out.append(f"class TestM{u}:\n    def test_m(self, {n}):\n        pass\n\n")
            elif k == "pytestmark":
                pm.append(n)
            elif k == "indirect":
                out.append(f'@pytest.mark.parametrize("{n}", [1, 2], indirect=True)\ndef test_i{u}({n}):\n    pass\n\n')
            elif k == "fixture_param":
                out.append(f"@pytest.fixture\ndef dep{u}({n}):\n    return {n}\n\n")
    if len(names) >= 2 and "indirect_multi" in kinds and rng.random() < 0.6:
        a_, b_ = rng.sample(list(names), 2)
        u = ws.uid()
        sep = rng.choice([", ", ","])
        out.append(f'@pytest.mark.parametrize("{a_}{sep}{b_}", [(1, 2)], indirect=True)\ndef test_im{u}({a_}, {b_}):\n    pass\n\n')
    if local_at_end:
        out.append(local_defs)
    # a decorator line on which completion lists the whole per-file view (no parameter/scope filtering)
    out.append("@pytest.mark.usefixtures()\ndef test_zz_view_probe():\n    pass\n\n")
    if pm:
        lst = ", ".join(f'pytest.mark.usefixtures("{n}")' for n in pm)
        if len(pm) == 1 and rng.random() < 0.5:
            out.insert(1, f"pytestmark = {lst}\n\n")
        else:
            out.insert(1, f"pytestmark = [{lst}]\n\n")
    return "".join(out)


def gen_workspace(root, rng, depth=None, n_names=None, venv=None, collisions=True, allow_imports=True,
                  allow_redefine=True, allow_multiline=True, probe_kinds=None, module_pkg_twins=False, indirect_multi=False,
                  ws_plugin=None, two_entry=None):
    if indirect_multi:
        # (only for checks that judge the navigation target: the recorded span of a multi-name indirect string is the
        # whole literal - KF-C15-indirect-true-multi-name-span - which position-keyed comparisons cannot tell apart)
        probe_kinds = list(probe_kinds or ["param", "usefixtures", "class_mark", "pytestmark", "indirect", "fixture_param", "kwonly", "method"]) + ["indirect_multi"]
    ws = WS(root)
    depth = depth if depth is not None else rng.randint(1, 4)
    n_names = n_names or rng.randint(2, 4)
    names = [f"fx_{chr(97 + i)}" for i in range(n_names)]
    venv = rng.random() < 0.5 if venv is None else venv
    spec = {"depth": depth, "names": names, "levels": []}
    dirs = [""]
    for lv in range(1, depth + 1):
        dirs.append(os.path.join(dirs[-1], f"lv{lv}"))
    roles_all = ["absent", "absent", "absent", "defines", "defines", "overrides"]
    if allow_imports:
        roles_all += ["star_import", "explicit_import", "pytest_plugins", "star_abs"]
    if allow_redefine:
        roles_all += ["redefine"]
    for lv, d in enumerate(dirs):
        conf = [HEADER]
        plugins = []
        lvspec = {}
        body = []
        imports = []
        for n in names:
            role = rng.choice(roles_all)
            lvspec[n] = role
            if role == "absent":
                continue
            ws.features.add(("role", role))
            if role == "defines":
                s, _ = fixture_src(ws, n, rng, scope=rng.choice([None, None, "class", "module", "package", "session"]),
                                   autouse=rng.random() < 0.1)
                body.append(s + "\n")
            elif role == "overrides":
                ml = allow_multiline and rng.random() < 0.2
                if ml:
                    ws.features.add(("multiline_override",))
                if rng.random() < 0.5:
                    # an ordinary request for the name *above* the override in the same file
                    sp_, _ = fixture_src(ws, f"pre{ws.uid()}_{n}", rng, extra_deps=[n])
                    body.append(sp_ + "\n")
                    ws.features.add(("usage_above_override",))
                s, _ = fixture_src(ws, n, rng, self_param=True, multiline=ml)
                body.append(s + "\n")
            elif role == "redefine":
                s1, _ = fixture_src(ws, n, rng)
                s2, _ = fixture_src(ws, n, rng, self_param=rng.random() < 0.3)
                body.append(s1 + "\n" + s2 + "\n")
            else:
                mod = f"fxm{lv}_{n}"
                if role in ("star_import", "explicit_import") and rng.random() < 0.2:
                    # a local module may legally carry the name of a stdlib module when imported relatively
                    cand = [m for m in STDLIB_LIKE if os.path.join(d, m + ".py") not in ws.files]
                    if cand:
                        mod = rng.choice(cand)
                        ws.features.add(("stdlib_named_local_module",))
                modrel = os.path.join(d, mod + ".py")
                transitive = rng.random() < 0.3
                if transitive:
                    inner = f"fxi{lv}_{n}"
                    s, _ = fixture_src(ws, n, rng)
                    ws.files[os.path.join(d, inner + ".py")] = HEADER + s
                    ws.files[modrel] = rng.choice([f"from .{inner} import *\n", f"from {inner} import *\n"])
                    ws.features.add(("transitive_import",))
                else:
                    s, _ = fixture_src(ws, n, rng)
                    ws.files[modrel] = HEADER + s
                if module_pkg_twins and rng.random() < 0.4:
                    # a package with the same name next to the module (legal; which one an import
                    # means must not depend on what happens to be cached)
                    s2, _ = fixture_src(ws, f"pk_{n}", rng)
                    ws.files[os.path.join(d, mod, "__init__.py")] = HEADER + s2
                    ws.features.add(("module_and_package_same_name",))
                if role in ("star_import", "explicit_import") and lv >= 1 and rng.random() < 0.3 and not transitive \
                        and not (module_pkg_twins and os.path.join(d, mod, "__init__.py") in ws.files):
                    # the module lives one or two directories further up: `from ..mod import` / `from ...mod import`
                    up = 1 if lv == 1 or rng.random() < 0.5 else 2
                    updir = dirs[lv - up]
                    newrel = os.path.join(updir, mod + ".py")
                    if newrel not in ws.files:
                        ws.files[newrel] = ws.files.pop(modrel)
                        dots = "." * (up + 1)
                        imports.append(f"from {dots}{mod} import *\n" if role == "star_import" else f"from {dots}{mod} import {n}\n")
                        ws.features.add(("relative_import_level", up + 1))
                        continue
                if role == "star_import":
                    imports.append(f"from .{mod} import *\n")
                elif role == "star_abs":
                    imports.append(f"from {mod} import *\n")
                elif role == "explicit_import":
                    imports.append(f"from .{mod} import {n}\n")
                else:
                    plugins.append(mod if rng.random() < 0.5 or not d else d.replace(os.sep, ".") + "." + mod)
        if plugins:
            form = rng.choice(["list", "tuple", "ann"]) if len(plugins) > 1 else rng.choice(["str", "list", "tuple", "ann"])
            if form == "str":
                imports.append(f'pytest_plugins = "{plugins[0]}"\n')
            elif form == "list":
                imports.append("pytest_plugins = [" + ", ".join(f'"{p}"' for p in plugins) + "]\n")
            elif form == "tuple":
                imports.append("pytest_plugins = (" + ", ".join(f'"{p}"' for p in plugins) + ",)\n")
            else:
                imports.append("pytest_plugins: list[str] = [" + ", ".join(f'"{p}"' for p in plugins) + "]\n")
        if rng.random() < 0.4:
            # a broad-scoped fixture requesting one of the names (which may or may not be visible from here)
            dep = rng.choice(names)
            sw, _ = fixture_src(ws, f"wide{ws.uid()}", rng, scope=rng.choice(["session", "module", "package", "class"]),
                                extra_deps=[dep])
            body.append(sw + "\n")
            ws.features.add(("broad_scoped_dependent",))
        if collisions and rng.random() < 0.5:
            # a name nobody requests, defined at several places, sometimes autouse
            su, _ = fixture_src(ws, "lonely", rng, autouse=rng.random() < 0.4)
            body.append(su + "\n")
            ws.features.add(("unrequested_same_named",))
        has_conf = bool(body or imports) or rng.random() < 0.3
        if has_conf:
            ws.files[os.path.join(d, "conftest.py")] = "".join(conf + imports + ["\n"] + body)
        # probe module in every directory
        local = None
        if rng.random() < 0.3:
            n = rng.choice(names)
            sp = rng.random() < 0.5
            s, _ = fixture_src(ws, n, rng, self_param=sp, multiline=allow_multiline and sp and rng.random() < 0.2)
            local = s + "\n"
            ws.features.add(("same_file_def", sp))
            if allow_redefine and rng.random() < 0.3:
                s2, _ = fixture_src(ws, n, rng)
                local += s2 + "\n"
                ws.features.add(("same_file_redefine",))
        ws.files[os.path.join(d, "test_probe.py")] = probe_src(ws, names, rng, local, probe_kinds)
        # invisible neighbours
        if collisions and rng.random() < 0.6:
            sd = os.path.join(d, f"sib{lv}")
            sbody = [HEADER]
            for n in names:
                if rng.random() < 0.6:
                    s, _ = fixture_src(ws, n, rng, scope=rng.choice([None, "class", "module", "session"]),
                                       autouse=rng.random() < 0.15)
                    sbody.append(s + "\n")
            ws.files[os.path.join(sd, "conftest.py")] = "".join(sbody)
            ws.files[os.path.join(sd, "test_probe.py")] = probe_src(ws, names, rng, None, probe_kinds)
            ws.features.add(("sibling_conftest",))
        if collisions and rng.random() < 0.4:
            n = rng.choice(names)
            s, _ = fixture_src(ws, n, rng)
            ws.files[os.path.join(d, f"test_other{lv}.py")] = HEADER + s + f"\ndef test_o({n}):\n    pass\n"
            ws.features.add(("other_test_module_def",))
        spec["levels"].append(lvspec)
    # an import that cannot be mapped to any file (a package that is not installed), ahead of the fixture imports
    for rel in list(ws.files):
        if rel.endswith("conftest.py") and re.search(r"^(from \S+ import |pytest_plugins)", ws.files[rel], re.M) and rng.random() < 0.3:
            lines_ = ws.files[rel].split("\n")
            at = next(i for i, l in enumerate(lines_) if re.match(r"(from \S+ import |pytest_plugins)", l))
            lines_.insert(at, "from acme_sdk_not_installed.testing import helper_thing")
            ws.files[rel] = "\n".join(lines_)
            ws.features.add(("unresolvable_import_first",))
    # a probe whose last line (a usage) has no line terminator
    for rel in list(ws.files):
        if os.path.basename(rel) == "test_probe.py" and rng.random() < 0.25:
            ws.files[rel] = ws.files[rel].rstrip("\n") + f"\n\ndef test_zlast({names[0]}): assert {names[0]}"
            ws.features.add(("no_final_newline",))
    if venv:
        add_venv(ws, rng, names, ws_plugin=ws_plugin, two_entry=two_entry)
        # names that exist only in the plugin / third-party tiers are requested from every probe
        tier_names = ["tp_only", "builtin_thing", "both_tiers"] + (["wsp_only"] if ("workspace_plugin",) in ws.features else []) \
            + (["wsp_extra_fx", "wsp_shared_fx", "wsp_deep_fx"] if ("workspace_plugin_chain",) in ws.features else [])
        for rel in list(ws.files):
            if os.path.basename(rel) == "test_probe.py" and not rel.startswith(".venv"):
                ws.files[rel] += "\n" + "".join(f"def test_tier_{t}({t}):\n    pass\n\n" for t in tier_names)
    ws.spec = spec
    return ws


def add_venv(ws, rng, names, third_party=True, ws_plugin=None, builtin=True, two_entry=None):
    sp = f".venv/lib/{PYVER}/site-packages"
    ws.site_rel.append(sp)
    ws.files[f".venv/pyvenv.cfg"] = "home = /usr/bin\n"
    if third_party:
        body = [HEADER]
        chosen = [n for n in names if rng.random() < 0.5]
        for n in chosen + ["tp_only", "both_tiers"]:
            s, _ = fixture_src(ws, n, rng)
            body.append(s + "\n")
        ws.files[f"{sp}/tp_plug.py"] = "".join(body)
        eps = "tp = tp_plug\n"
        if (rng.random() < 0.5) if two_entry is None else two_entry:
            # the distribution registers a second plugin module that defines one of the names again
            s1, _ = fixture_src(ws, "tp_only", rng)
            s2, _ = fixture_src(ws, "tp_b_only", rng)
            ws.files[f"{sp}/tp_plug_b.py"] = HEADER + s1 + "\n" + s2
            ws.third_party_rel.add(f"{sp}/tp_plug_b.py")
            ws.plugin_rel.add(f"{sp}/tp_plug_b.py")
            eps = rng.choice(["tp = tp_plug\ntp_b = tp_plug_b\n", "tp_b = tp_plug_b\ntp = tp_plug\n"])
            ws.features.add(("two_entry_modules_same_name",))
        ws.files[f"{sp}/tp_plug-1.0.dist-info/entry_points.txt"] = "[console_scripts]\nx = y:z\n\n[pytest11]\n" + eps
        ws.files[f"{sp}/tp_plug-1.0.dist-info/METADATA"] = "Name: tp_plug\n"
        ws.third_party_rel.add(f"{sp}/tp_plug.py")
        ws.plugin_rel.add(f"{sp}/tp_plug.py")
        ws.features.add(("third_party",))
    if builtin:
        s, _ = fixture_src(ws, "builtin_thing", rng)
        if rng.random() < 0.5:
            s2, _ = fixture_src(ws, "both_tiers", rng)
            s += "\n" + s2
        ws.files[f"{sp}/_pytest/__init__.py"] = ""
        ws.files[f"{sp}/_pytest/tmpthing.py"] = HEADER + s
        ws.third_party_rel.add(f"{sp}/_pytest/tmpthing.py")
        ws.third_party_rel.add(f"{sp}/_pytest/__init__.py")
        ws.plugin_rel.add(f"{sp}/_pytest/tmpthing.py")
    if ws_plugin is None:
        ws_plugin = rng.random() < 0.6
    if ws_plugin:
        body = [HEADER]
        chosen = [n for n in names if rng.random() < 0.4]
        for n in chosen + ["wsp_only", "both_tiers"]:
            s, _ = fixture_src(ws, n, rng)
            body.append(s + "\n")
        ws.files["wsplug/__init__.py"] = ""
        ws.files["wsplug/plugin_mod.py"] = "".join(body)
        ws.files[f"{sp}/wsplug-0.1.dist-info/entry_points.txt"] = "[pytest11]\nws = wsplug.plugin_mod\n"
        ws.files[f"{sp}/wsplug-0.1.dist-info/direct_url.json"] = json.dumps(
            {"url": "file://" + ws.root, "dir_info": {"editable": True}})
        ws.files[f"{sp}/__editable__.wsplug-0.1.pth"] = ws.root + "\n"
        ws.plugin_rel.add("wsplug/plugin_mod.py")
        ws.features.add(("workspace_plugin",))
        if rng.random() < 0.5:
            # the plugin module pulls in a chain of modules by star imports (plugin status propagates along it), and an
            # ordinary conftest in a side directory reaches the middle of that chain directly
            ws.files["wsplug/plugin_mod.py"] = "from .extra import *\n" + ws.files["wsplug/plugin_mod.py"]
            for mod, nxt, nm in (("extra", "shared", "wsp_extra_fx"), ("shared", "deep", "wsp_shared_fx"), ("deep", None, "wsp_deep_fx")):
                s_, _ = fixture_src(ws, nm, rng)
                ws.files[f"wsplug/{mod}.py"] = (f"from .{nxt} import *\n" if nxt else "") + HEADER + s_
                ws.plugin_rel.add(f"wsplug/{mod}.py")
            ws.files["diamond/conftest.py"] = "from wsplug.shared import *\n"
            ws.files["diamond/test_probe.py"] = HEADER + "def test_d(wsp_shared_fx, wsp_deep_fx):\n    pass\n"
            ws.features.add(("workspace_plugin_chain",))
    elif rng.random() < 0.5:
        # the project is installed editable from a directory ABOVE the workspace (pip install -e of the repository root,
        # editor opened on a sub-directory): nothing of the workspace becomes third-party or a plugin through that
        parent = os.path.dirname(ws.root)
        ws.files[f"{sp}/selfproj-0.1.dist-info/direct_url.json"] = json.dumps({"url": "file://" + parent, "dir_info": {"editable": True}})
        ws.files[f"{sp}/selfproj-0.1.dist-info/METADATA"] = "Name: selfproj\n"
        ws.files[f"{sp}/__editable__.selfproj-0.1.pth"] = parent + "\n"
        ws.features.add(("editable_root_above_workspace",))


def gen_import_cycle_ws(root, rng, n=None):
    """conftest -> m0 -> m1 -> ... -> m0 : mutually importing fixture modules"""
    ws = WS(root)
    n = n or rng.randint(2, 4)
    names = []
    for i in range(n):
        nm = f"cyc_{i}"
        names.append(nm)
        s, _ = fixture_src(ws, nm, rng)
        nxt = (i + 1) % n
        form = rng.choice([f"from .m{nxt} import *\n", f"from m{nxt} import *\n"])
        ws.files[f"pkg/m{i}.py"] = form + HEADER + s
    entry = rng.randrange(n)
    ws.files["pkg/conftest.py"] = f"from .m{entry} import *\n"
    ws.files["pkg/test_probe.py"] = probe_src(ws, names, rng, None, ["param", "usefixtures"])
    if rng.random() < 0.5:
        # a second conftest below entering the cycle elsewhere
        e2 = rng.randrange(n)
        ws.files["pkg/sub/conftest.py"] = f"from ..m{e2} import *\n"
        ws.files["pkg/sub/test_probe.py"] = probe_src(ws, names, rng, None, ["param"])
    ws.spec = {"depth": 1, "names": names, "levels": [], "import_cycle": n}
    ws.features.add(("import_cycle", n))
    return ws
