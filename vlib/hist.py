"""G-hist: edit histories (sequences of full-text versions) over a generated workspace."""
import ast, os

from .pymodel import FileModel
from . import gen


def _valid(text):
    try:
        compile(text, "<doc>", "exec", dont_inherit=True)
        return True
    except Exception:
        return False


def _del_lines(text, first, last):
    lines = text.split("\n")
    return "\n".join(lines[:first - 1] + lines[last:])


def mutate(ws, rel, text, rng, names):
    """returns (new_text, op) — one edit of a document"""
    m = FileModel(text)
    ops = ["add_fixture", "add_usage", "shift", "resend", "resend", "only_undeclared", "plain_file", "swap_blank_line", "swap_blank_line"]
    if m.ok:
        if m.defs:
            ops += ["remove_fixture", "rename_fixture", "remove_all_fixtures", "toggle_selfparam"] * 2
        tests = [f for f in m.functions if f["is_test"]]
        if tests:
            ops += ["remove_usage"] * 2
        if os.path.basename(rel) == "conftest.py" or m.imports:
            ops += ["imports_only"] * 2
        ops += ["break_truncate", "break_paren", "add_undeclared_use"]
    op = rng.choice(ops)
    if op == "swap_blank_line":
        # a blank line changes places with the non-blank line after it: same bytes, same length, other line starts
        ls = text.split("\n")
        cand = [i for i in range(len(ls) - 2) if ls[i] == "" and ls[i + 1].strip() and not ls[i + 1].startswith((" ", "\t"))
                and not ls[i + 1].lstrip().startswith(("'", '"'))]
        if not cand:
            return text, "resend"
        i = rng.choice(cand)
        ls[i], ls[i + 1] = ls[i + 1], ls[i]
        return "\n".join(ls), op
    if op == "only_undeclared":
        # nothing but a parameter-less test that uses a fixture name in its body
        n = rng.choice(names)
        return f"def test_only_body():\n    v = {n}\n    return {n}.x\n", op
    if op == "plain_file":
        # no fixture, no usage, no finding at all
        return "def test_plain():\n    pass\n", op
    if op == "add_fixture":
        n = rng.choice(names + [f"extra_{rng.randint(0, 3)}"])
        dep = rng.choice(names)
        s, _ = gen.fixture_src(ws, n, rng, self_param=rng.random() < 0.2,
                               extra_deps=[dep] if rng.random() < 0.3 and dep != n else ())
        return text.rstrip("\n") + "\n\n" + s, op
    if op == "add_usage":
        n = rng.choice(names + ["extra_0", "extra_1"])
        k = ws.uid()
        form = rng.random()
        if form < 0.6:
            return text.rstrip("\n") + f"\n\ndef test_h{k}({n}):\n    pass\n", op
        if "import pytest" not in text:
            text = "import pytest\n" + text
        return text.rstrip("\n") + f'\n\n@pytest.mark.usefixtures("{n}")\ndef test_h{k}():\n    pass\n', op
    if op == "add_undeclared_use":
        n = rng.choice(names + ["extra_0", "extra_1"])
        k = ws.uid()
        return text.rstrip("\n") + f"\n\ndef test_und{k}():\n    x = {n}\n    assert {n}.y\n", op
    if op == "shift":
        return "\n" * rng.randint(1, 3) + text, op
    if op == "resend":
        return text, op
    if op == "remove_fixture":
        d = rng.choice(m.defs)
        first = d.get("first_line", d["line"])
        return _del_lines(text, first, d["end_line"]), op
    if op == "remove_all_fixtures":
        t = text
        for d in sorted(m.defs, key=lambda d: -d["line"]):
            t = _del_lines(t, d.get("first_line", d["line"]), d["end_line"])
        return t, op
    if op == "rename_fixture":
        d = rng.choice([x for x in m.defs if x["style"] == "decorator"] or m.defs)
        if d["style"] != "decorator" or d["name_span"] is None:
            return text, "resend"
        lines = text.split("\n")
        ln = lines[d["line"] - 1]
        sp = d["name_span"]
        new = rng.choice(names + [d["func"] + "_r"])
        lines[d["line"] - 1] = ln[:sp["start_b"]] + new + ln[sp["end_b"]:]
        return "\n".join(lines), op
    if op == "toggle_selfparam":
        d = rng.choice([x for x in m.defs if x["style"] == "decorator"] or m.defs)
        if d["style"] != "decorator":
            return text, "resend"
        lines = text.split("\n")
        ln = lines[d["line"] - 1]
        if "()" in ln:
            lines[d["line"] - 1] = ln.replace("()", f"({d['name']})", 1)
        elif f"({d['name']})" in ln:
            lines[d["line"] - 1] = ln.replace(f"({d['name']})", "()", 1)
        return "\n".join(lines), op
    if op == "remove_usage":
        f = rng.choice(tests)
        return _del_lines(text, f["first_line"], f["end_line"]), op
    if op == "imports_only":
        lines = text.split("\n")
        imp_idx = [i for i, l in enumerate(lines) if (l.startswith("from ") and "typing" not in l) or l.startswith("pytest_plugins")]
        if imp_idx and rng.random() < 0.5:
            del lines[rng.choice(imp_idx)]
            return "\n".join(lines), op + "_remove"
        d = os.path.dirname(rel)
        mods = [os.path.splitext(os.path.basename(r))[0] for r in ws.files
                if os.path.dirname(r) == d and r.endswith(".py") and os.path.basename(r) not in ("conftest.py",)
                and not os.path.basename(r).startswith("test_")]
        if not mods:
            return text, "resend"
        mod = rng.choice(mods)
        form = rng.choice([f"from .{mod} import *", f"from {mod} import *"])
        return form + "\n" + text, op + "_add"
    if op == "break_truncate":
        cut = rng.randint(max(1, len(text) // 3), max(2, len(text) - 1))
        t = text[:cut]
        return (t + "(") if _valid(t) else t, op
    if op == "break_paren":
        return text.rstrip("\n") + "\n\ndef test_broken(\n", op
    return text, "resend"


def gen_history(ws, rng, n_steps, files=None, names=None, parses=None):
    """parses: optional callable(text)->bool giving the implementation parser's verdict; a step on which CPython
    and that parser disagree is outside the supported grammar and is not generated"""
    for _attempt in range(20):
        steps = _gen_history(ws, rng, n_steps, files, names)
        if parses is None or all(parses(s["text"]) == s["valid"] for s in steps):
            return steps
    return [s for s in steps if parses(s["text"]) == s["valid"]]


def _gen_history(ws, rng, n_steps, files=None, names=None):
    """yields steps: dict(op, rel, text, valid)"""
    names = names or ws.spec["names"]
    cands = files or [r for r in ws.workspace_py()]
    focus = rng.sample(cands, min(len(cands), rng.randint(2, 4)))
    cur = {r: ws.files[r] for r in cands}
    last_valid = dict(cur)
    steps = []
    for _ in range(n_steps):
        rel = rng.choice(focus)
        if not _valid(cur[rel]) and rng.random() < 0.6:
            new, op = last_valid[rel], "repair"
        else:
            base = cur[rel] if _valid(cur[rel]) else last_valid[rel]
            new, op = mutate(ws, rel, base, rng, names)
        cur[rel] = new
        v = _valid(new)
        if v:
            last_valid[rel] = new
        steps.append({"op": op, "rel": rel, "text": new, "valid": v})
    return steps


def directed_resend(ws, rng):
    """a document whose findings depend on another file: edit the other file, then re-send the document unchanged"""
    names = ws.spec["names"]
    tests = [r for r in ws.workspace_py() if os.path.basename(r).startswith("test_")]
    t = rng.choice(tests)
    d = os.path.dirname(t)
    conf = os.path.join(d, "conftest.py") if os.path.join(d, "conftest.py") in ws.files else None
    if conf is None:
        confs = [r for r in ws.workspace_py() if os.path.basename(r) == "conftest.py" and t.startswith(os.path.dirname(r))]
        if not confs:
            return []
        conf = max(confs, key=len)
    k = ws.uid()
    newname = f"late_{k}"
    t1 = ws.files[t].rstrip("\n") + f"\n\ndef test_late{k}():\n    v = {newname}\n    assert {newname}\n"
    sfx, _ = gen.fixture_src(ws, newname, rng)
    c1 = ws.files[conf].rstrip("\n") + "\n\n" + ("import pytest\n" if "import pytest" not in ws.files[conf] else "") + sfx
    steps = [{"op": "add_undeclared_use", "rel": t, "text": t1, "valid": True},
             {"op": "add_fixture", "rel": conf, "text": c1, "valid": True},
             {"op": "resend", "rel": t, "text": t1, "valid": True}]
    if rng.random() < 0.5:
        steps += [{"op": "remove_fixture", "rel": conf, "text": ws.files[conf], "valid": True},
                  {"op": "resend", "rel": t, "text": t1, "valid": True}]
    return steps
