"""Helpers shared by the property checks."""
import os, shutil

from . import build
from .common import write_tree
from .vh import VH
from .lsp import LSP

_BIN = {}


def vh_bin(profile="release"):
    k = ("vh", profile)
    if k not in _BIN:
        _BIN[k] = build.build_vh(profile)
    return _BIN[k]


def srv_bin(profile="release"):
    k = ("srv", profile)
    if k not in _BIN:
        _BIN[k] = build.build_srv(profile)
    return _BIN[k]


def materialize(ws):
    write_tree(ws.root, ws.files)


def def_index(raw):
    """{name: [ (file, line) ... in registration order ]}"""
    return {n: [(d["file"], d["line"]) for d in v] for n, v in raw["definitions"].items()}


def expected_target(res):
    """model resolution -> set of acceptable (file, line) or None"""
    if res is None:
        return None
    if res[0] == "def":
        return {(res[1], res[2]["line"])}
    return {(p, d["line"]) for (p, d) in res[2]}


def res_kind(res):
    if res is None:
        return "none"
    return res[3] if res[0] == "def" else res[1]


def predict_import_branch(model, order, file, name, ex):
    """Executable model of the recorded import-branch defect (KF-C01/KF-C02 'import-first-registered'):
    walking up from `file`, the first conftest that has no own definition of `name` (other than the excluded
    one) but re-exports `name` makes the resolver return the FIRST definition of `name` in registration order
    that is not the excluded one - wherever it lives.  Returns that (file, line), or None if the walk ends
    in the normal way before reaching such a conftest."""
    import os
    m = model.models.get(file)
    if m is not None and m.ok and any((file, d["line"]) != ex for d in m.defs_named(name)):
        return None
    cur = os.path.dirname(file)
    while True:
        cf = os.path.join(cur, "conftest.py")
        cm = model.models.get(cf)
        if cm is not None and cm.ok:
            if cf != file and any((cf, d["line"]) != ex for d in cm.defs_named(name)):
                return None
            if name in model.imported_into(cf):
                cands = [d for d in order.get(name, []) if d != ex]
                return cands[0] if cands else None
        parent = os.path.dirname(cur)
        if parent == cur:
            return None
        cur = parent
