"""Helpers shared by the property checks."""
import os, shutil

from . import build
from .common import write_tree
from .vh import VH
from .lsp import LSP

_BIN = {}


def vh_bin(profile="release"):
    k = ("vh", profile)
    if k not in _BIN:
        _BIN[k] = build.build_vh(profile)
    return _BIN[k]


def srv_bin(profile="release"):
    k = ("srv", profile)
    if k not in _BIN:
        _BIN[k] = build.build_srv(profile)
    return _BIN[k]


def materialize(ws):
    write_tree(ws.root, ws.files)


def def_index(raw):
    """{name: [ (file, line) ... in registration order ]}"""
    return {n: [(d["file"], d["line"]) for d in v] for n, v in raw["definitions"].items()}


def expected_target(res):
    """model resolution -> set of acceptable (file, line) or None"""
    if res is None:
        return None
    if res[0] == "def":
        return {(res[1], res[2]["line"])}
    return {(p, d["line"]) for (p, d) in res[2]}


def res_kind(res):
    if res is None:
        return "none"
    return res[3] if res[0] == "def" else res[1]
