"""C08 — answers do not depend on scan order, thread schedule or process run.

Monitor: twin execution.  The same files are indexed several ways and the observable snapshot
(every query) is compared:
  (a) K random permutations of the per-file analysis order (the only effect the parallel scan's
      schedule has on the index) on fresh databases in one process,
  (b) real scan_workspace in separate processes with RAYON_NUM_THREADS in {1,2,4,16} and the
      delay injector of the instrumented DashMap,
  (c) the CLI binary, repeated with different worker counts (byte equality of the output).
"""
import hashlib, json, os, shutil

from .. import gen
from ..cli import run_cli, parse_tree
from ..common import write_tree, Inconclusive
from ..runner import vh_bin, srv_bin, materialize
from ..twins import norm_queries, keyed_queries, keyed_diff, brief
from ..vh import VH, strip_root

KF_FIRST = "KF-C08-first-registered-picks"


def sensitive_names(ws, raw, real_scan=False):
    """names whose answers are known to depend on registration order (the recorded finding):
    >= 2 definitions AND (supplied through an import somewhere, or >= 2 candidates in one global tier,
    or part of a dependency graph built from the first-registered definition)."""
    model = ws.model()
    imported = set()
    for p_, m_ in model.models.items():
        if m_.ok and m_.imports:
            imported |= set(model.imported_into(p_))
    sens = set()
    tier_sens = set()
    multi = {n for n, defs in raw["definitions"].items() if len(defs) >= 2}
    for n in multi:
        defs = raw["definitions"][n]
        tier_p = sum(1 for d in defs if d["plugin"] and not d["third_party"])
        tier_t = sum(1 for d in defs if d["third_party"])
        # real scans register site-packages plugins sequentially (pytest's own package, then the entry points in
        # directory / file order), so several third-party candidates alone do not make a name order-sensitive there
        if tier_p >= 2 or (tier_t >= 2 and not real_scan):
            tier_sens.add(n)
        if n in imported or n in tier_sens:
            sens.add(n)
    ws._c08_model, ws._c08_tier = model, tier_sens
    return sens, multi


def file_level_sensitive(ws, file, name, line=None):
    """For answers about ONE requesting file (go-to-definition of a usage in it, its per-file view): the recorded finding
    applies only if the walk up from that file really reaches the import branch (a conftest that re-exports the name
    without defining it) before any conftest / the file itself defines the name, or falls through to a tier with several
    candidates."""
    model = getattr(ws, "_c08_model", None)
    if model is None:
        return True
    if name in ws._c08_tier:
        m = model.models.get(file)
        # (tier candidates matter only if nothing nearer provides the name; being generous here costs little)
        return True
    m = model.models.get(file)
    if m is not None and m.ok:
        own = m.defs_named(name)
        # a same-named parameter (usage on the def line of a definition of that name) looks past its own definition
        others = [d_ for d_ in own if line is None or d_["line"] != line]
        if others and (line is None or len(others) == len(own)):
            return False
        if others and len(others) < len(own):
            return False if len(others) >= 1 else True
    d = os.path.dirname(file)
    root = os.path.realpath(ws.root)
    while True:
        c = os.path.join(d, "conftest.py")
        cm = model.models.get(c)
        if cm is not None and cm.ok and c != file:
            if cm.defs_named(name):
                return False
            if name in set(model.imported_into(c)):
                return True
        elif c == file and name in set(model.imported_into(c)):
            return True
        if os.path.realpath(d) == root or d in ("/", ""):
            break
        d = os.path.dirname(d)
    # nothing on the path: plugin files' own import chains etc. stay name-level
    return True


def judge(ctx, ws, base, other, sens, multi, how, root):
    dd = keyed_diff(base, other)
    for sec, key, names, va, vb in dd:
        # cycles / their anchors are computed from the first-registered definition of each name
        if sec in ("cycles",) and names & multi and ctx.known(KF_FIRST):
            continue
        if names & sens and ctx.known(KF_FIRST):
            if sec in ("goto", "available"):
                file = key.rsplit(":", 3)[0] if sec == "goto" else key.rsplit("::", 1)[0]
                line_ = int(key.rsplit(":", 3)[1]) if sec == "goto" else None
                if not any(file_level_sensitive(ws, file, n_, line_) for n_ in names & sens):
                    ctx.violation({"kind": "order-dependent-answer", "section": sec, "key": strip_root(key, root), "how": how[0],
                                   "note": "a nearer definition decides this answer: not covered by the recorded finding"},
                                  {"a": brief(strip_root(va, root)), "b": brief(strip_root(vb, root)), "how": how}, files=ws.files)
                    return False
            continue
        # a fixture depending on an order-sensitive name inherits the sensitivity in scope checks
        ctx.violation({"kind": "order-dependent-answer", "section": sec, "key": strip_root(key, root), "how": how[0]},
                      {"a": brief(strip_root(va, root)), "b": brief(strip_root(vb, root)), "how": how,
                       "sensitive_names": sorted(sens)}, files=ws.files)
        return False
    return True


def run(ctx):
    quick = ctx.tier == "quick"
    n_ws = 24 if quick else 600
    K = 6 if quick else 24
    n_proc_ws = 4 if quick else 60
    ctx.rule = ("generated workspaces with colliding names; K permutations of the analysis order, real scans with "
                "1/2/4/16 workers + delay injection in separate processes, repeated CLI runs; every query compared; "
                "distinct = distinct analysis orders x workspaces with >= 2 same-named definitions")
    vh = VH(vh_bin(), locklog=os.path.join(ctx.scratch_root, "lock_vh.log"))
    snaps_seen = set()
    try:
        pinned(ctx, vh)
        if os.environ.get("VERIF_ONLY_PINNED"):
            return
        for i in range(n_ws):
            root = ctx.scratch(f"ws{i}")
            strict = i % 2 == 1
            ws = gen.gen_workspace(root, ctx.rng, venv=False, allow_imports=not strict)
            materialize(ws)
            files = sorted(ws.workspace_py())
            base = None
            sens, multi = set(), set()
            for k in range(K):
                order = list(files)
                if k > 0:
                    ctx.rng.shuffle(order)
                db = vh.new_db()
                res = vh.call(op="batch", cmds=[{"op": "analyze_fresh", "db": db, "path": ws.abs(r), "text": ws.files[r]}
                                               for r in order])["results"]
                if any("panic" in r for r in res):
                    raise Inconclusive("analysis panicked")
                q = keyed_queries(vh.call(op="queries", db=db, files=[ws.abs(r) for r in files]))
                snaps_seen.add(hashlib.sha1(json.dumps(strip_root(q, root), sort_keys=True).encode()).hexdigest())
                if k == 0:
                    base = q
                    raw = vh.call(op="raw", db=db)
                    sens, multi = sensitive_names(ws, raw)
                    if strict and sens:
                        sens = set()   # nothing is excused in import-free, venv-free workspaces
                else:
                    ctx.judged()
                    judge(ctx, ws, base, q, sens, multi, ("permutation", order), root)
                    if multi:
                        ctx.nontrivial(("perm", i, hashlib.sha1(" ".join(order).encode()).hexdigest()[:8]))
                vh.call(op="drop_db", db=db)
            if i % 3 == 0:
                tier_permutations(ctx, vh, i, K)
            ctx.sample({"workspace": ws.spec, "orders": K, "sensitive_names": sorted(sens)})
            ctx.count("workspaces")
            if i < n_proc_ws:
                proot = ctx.scratch(f"pw{i}")
                pws = gen.gen_workspace(proot, ctx.rng, venv=(i % 2 == 0), depth=ctx.rng.randint(2, 4), n_names=4,
                                        ws_plugin=(True if i == 0 else None), two_entry=(True if i % 2 == 0 else None))
                materialize(pws)
                processes(ctx, pws, set(), set())
                shutil.rmtree(proot, ignore_errors=True)
            shutil.rmtree(root, ignore_errors=True)
        directed_permutations(ctx, vh, K)
        for j in range(1 if quick else 10):
            symbols_across_processes(ctx, j)
        registration_race(ctx, 12 if quick else 300)
    finally:
        vh.close()
    ctx.extra["distinct_snapshots_seen"] = len(snaps_seen)


def directed_permutations(ctx, vh, K):
    """hand-written layouts around names that are defined more than once but are NOT visible from the requesting file
    (nothing about them is order-sensitive): all orders of registration must give the same answers"""
    H = "import pytest\n\n"
    layouts = {
        "invisible_dependency_with_two_scopes": {
            "a/conftest.py": H + "@pytest.fixture\ndef dep():\n    return 1\n",
            "b/conftest.py": H + "@pytest.fixture(scope=\"session\")\ndef dep():\n    return 2\n",
            "c/conftest.py": H + "@pytest.fixture(scope=\"session\")\ndef wide(dep):\n    return dep\n\n@pytest.fixture(scope=\"module\")\ndef mid(dep, wide):\n    return 1\n",
            "c/test_mod.py": "def test_c(wide, mid, dep):\n    v = dep\n",
            "a/test_a.py": "def test_a(dep):\n    pass\n", "b/test_b.py": "def test_b(dep):\n    pass\n"},
        "invisible_names_in_body_and_marks": {
            "a/conftest.py": H + "@pytest.fixture\ndef only_a():\n    return 1\n\n@pytest.fixture(autouse=True)\ndef auto_a():\n    return 1\n",
            "b/conftest.py": H + "@pytest.fixture(scope=\"module\")\ndef only_a():\n    return 2\n\n@pytest.fixture\ndef auto_a():\n    return 3\n",
            "c/test_mod.py": H + "@pytest.mark.usefixtures(\"only_a\")\ndef test_c(auto_a):\n    x = only_a\n"},
    }
    layouts["conftest_redefines_a_name_it_also_imports"] = {
        "pkg/__init__.py": "",
        "pkg/helpers.py": H + "@pytest.fixture\ndef db() -> \"FromHelpers\":\n    return 1\n\n@pytest.fixture\ndef only_helpers():\n    return 1\n",
        "pkg/conftest.py": "from .helpers import *\n" + H + "@pytest.fixture(scope=\"module\")\ndef db() -> \"FromConftest\":\n    return 2\n",
        "other/test_x.py": H + "@pytest.fixture(scope=\"session\")\ndef db() -> \"Unrelated\":\n    return 3\n\ndef test_x(db):\n    pass\n",
        "pkg/test_use.py": H + "def test_u(db, only_helpers):\n    pass\n\n@pytest.fixture(scope=\"module\")\ndef uses_db(db):\n    return db\n",
        "pkg/sub/test_deeper.py": "def test_d(db):\n    v = db\n"}
    # several fixtures of one broader scope share one narrower dependency (each is a finding of its own, in every run), next
    # to a sibling file that overrides a conftest name locally while another file of the directory uses the conftest's
    layouts["fixtures_of_one_scope_sharing_a_narrower_dependency"] = {
        "conftest.py": H + "@pytest.fixture\ndef narrow():\n    return 1\n\n"
                       + "".join(f"@pytest.fixture(scope=\"session\")\ndef s{j}(narrow):\n    return {j}\n\n" for j in range(4))
                       + "".join(f"@pytest.fixture(scope=\"module\")\ndef m{j}(narrow):\n    return {j}\n\n" for j in range(3)),
        "test_plain.py": "def test_p(narrow, s0, s1, s2, s3, m0, m1, m2):\n    pass\n",
        "test_override.py": H + "@pytest.fixture\ndef narrow():\n    return 2\n\ndef test_o(narrow, s0):\n    pass\n"}
    for lname, files in layouts.items():
        root = ctx.scratch("dir_" + lname)
        ws = gen.WS(root)
        ws.files = dict(files)
        ws.spec = {"directed": lname, "depth": 1, "names": []}
        write_tree(root, ws.files)
        rels = sorted(files)
        base = None
        import itertools
        orders = list(itertools.permutations(rels))
        ctx.rng.shuffle(orders)
        for k, order in enumerate([tuple(rels)] + orders[: max(K, 8)]):
            db = vh.new_db()
            vh.call(op="batch", cmds=[{"op": "analyze_fresh", "db": db, "path": ws.abs(r), "text": ws.files[r]} for r in order])
            q = keyed_queries(vh.call(op="queries", db=db, files=[ws.abs(r) for r in rels]))
            vh.call(op="drop_db", db=db)
            if base is None:
                base = q
            else:
                ctx.judged()
                judge(ctx, ws, base, q, set(), set(), ("directed-permutation", lname, list(order)), root)
                ctx.nontrivial(("directed_perm", lname, k))
        shutil.rmtree(root, ignore_errors=True)


def registration_race(ctx, scans):
    """many files that all define the same names, scanned in parallel (16 workers, injected delays at the map locks):
    after every scan each name has exactly one definition per file"""
    root = ctx.scratch("race")
    ndirs, nnames = 40, 30
    files = {}
    for d_ in range(ndirs):
        files[f"p{d_}/conftest.py"] = "import pytest\n\n" + "".join(f"@pytest.fixture\ndef same_{k}():\n    return {k}\n\n" for k in range(nnames))
        files[f"p{d_}/test_u.py"] = "def test_u(same_0, same_1):\n    pass\n"
    write_tree(root, files)
    p = VH(vh_bin(), env={"RAYON_NUM_THREADS": "16", "VERIF_DELAY": f"{ctx.seed + 3}:150000", "VERIF_SHARDS": "2"})
    try:
        for k in range(scans):
            db = p.new_db()
            r = p.call(op="scan", db=db, root=root, timeout=300)
            raw = p.call(op="raw", db=db)
            p.call(op="drop_db", db=db)
            ctx.judged()
            bad = {n: len(v) for n, v in raw["definitions"].items() if n.startswith("same_") and len(v) != ndirs}
            missing = [f"same_{i}" for i in range(nnames) if f"same_{i}" not in raw["definitions"]]
            if bad or missing:
                ctx.violation({"kind": "definitions-lost-or-duplicated-by-parallel-registration"},
                              {"scan": k, "counts": dict(list(bad.items())[:5]), "missing": missing[:5], "expected_per_name": ndirs})
                break
        ctx.nontrivial(("registration_race", scans > 0))
        ctx.count("registration_race_scans", scans)
    finally:
        p.close()
        shutil.rmtree(root, ignore_errors=True)


def symbols_across_processes(ctx, j):
    """a workspace with a few hundred fixtures: the symbol list (workspace/symbol with an empty and a common query,
    documentSymbol of one conftest) is the same set in every server process, and it is the full set"""
    from ..lsp import LSP, uri_to_path
    root = ctx.scratch(f"big{j}")
    files = {}
    npk = ctx.rng.randint(10, 16)
    for p_ in range(npk):
        body = "import pytest\n\n" + "".join(f"@pytest.fixture\ndef pk{p_}_db_{k}():\n    return {k}\n\n" for k in range(ctx.rng.randint(12, 20)))
        body += "@pytest.fixture\ndef shared_db():\n    return 0\n"
        files[f"pkg{p_}/conftest.py"] = body
        files[f"pkg{p_}/test_m.py"] = f"def test_m(pk{p_}_db_0, shared_db):\n    pass\n"
    write_tree(root, files)
    want = set()
    for rel, t in files.items():
        for ln, l in enumerate(t.split("\n")):
            if l.startswith("def ") and rel.endswith("conftest.py"):
                want.add((l[4:l.index("(")], rel, ln))
    seen = []
    for threads in ("1", "4", "16"):
        srv = LSP(srv_bin(), root, env={"RAYON_NUM_THREADS": threads})
        try:
            srv.initialize(timeout=120)
            got = {}
            for query in ("", "db"):
                r = srv.workspace_symbol(query)
                if not r["answered"]:
                    raise Inconclusive("workspace/symbol unanswered")
                got[query] = {(x["name"], os.path.relpath(uri_to_path(x["location"]["uri"]), root), x["location"]["range"]["start"]["line"])
                              for x in (r.get("result") or [])}
            seen.append(got)
        finally:
            srv.shutdown()
        for query in ("", "db"):
            ctx.judged()
            if got[query] != want:
                ctx.violation({"kind": "workspace-symbols-incomplete", "query": query, "threads": threads,
                               "listed": len(got[query]), "defined": len(want)},
                              {"missing": sorted(want - got[query])[:5], "unexpected": sorted(got[query] - want)[:5]})
                break
    ctx.judged()
    if any(s_ != seen[0] for s_ in seen[1:]):
        ctx.violation({"kind": "workspace-symbols-differ-between-processes"}, {"sizes": [[len(v) for v in s_.values()] for s_ in seen]})
    ctx.nontrivial(("symbols_across_processes", len(want) > 128))
    ctx.count("symbol_fixtures", len(want))
    shutil.rmtree(root, ignore_errors=True)


def tier_permutations(ctx, vh, i, K):
    """registration orders across the plugin / third-party tiers: the files of a venv (entry-point plugins inside the
    workspace and in site-packages, pytest's own package) are registered before, between and after the workspace files"""
    root = ctx.scratch(f"tv{i}")
    ws = gen.gen_workspace(root, ctx.rng, venv=True, allow_imports=False, depth=ctx.rng.randint(1, 3))
    materialize(ws)
    files = sorted(ws.workspace_py())
    venv_py = sorted(r for r in ws.files if r.endswith(".py") and r not in files)
    allf = files + venv_py
    base, sens, multi = None, set(), set()
    for k in range(K):
        order = list(allf)
        if k > 0:
            ctx.rng.shuffle(order)
        db = vh.new_db()
        for r in ws.plugin_rel:
            vh.call(op="mark_plugin", db=db, path=ws.abs(r))
        res = vh.call(op="batch", cmds=[{"op": "analyze_fresh", "db": db, "path": ws.abs(r), "text": ws.files[r]} for r in order])["results"]
        if any("panic" in r for r in res):
            raise Inconclusive("analysis panicked")
        q = keyed_queries(vh.call(op="queries", db=db, files=[ws.abs(r) for r in files]))
        if k == 0:
            base = q
            sens, multi = sensitive_names(ws, vh.call(op="raw", db=db))
        else:
            ctx.judged()
            judge(ctx, ws, base, q, sens, multi, ("tier-permutation", order), root)
            ctx.nontrivial(("tierperm", i, hashlib.sha1(" ".join(order).encode()).hexdigest()[:8]))
        vh.call(op="drop_db", db=db)
    ctx.count("tier_workspaces")
    shutil.rmtree(root, ignore_errors=True)


def processes(ctx, ws, sens0, multi0):
    """real scans in separate processes with different worker counts, and CLI repeat runs"""
    root = ws.root
    # a venv makes the plugin / third-party tiers part of the picture
    files = None
    base = None
    for j, threads in enumerate(["1", "2", "4", "16", "16"]):
        env = {"RAYON_NUM_THREADS": threads}
        if j >= 2:
            env["VERIF_DELAY"] = f"{ctx.seed * 7 + j}:200000"
        p = VH(vh_bin(), env=env)
        try:
            db = p.new_db()
            r = p.call(op="scan", db=db, root=root, timeout=300)
            if "panic" in r:
                raise Inconclusive(f"scan panicked: {r}")
            raw = p.call(op="raw", db=db)
            files = sorted(set(raw["file_cache"]))
            q = keyed_queries(p.call(op="queries", db=db, files=files))
            if base is None:
                base = q
                sens, multi = sensitive_names(ws, raw, real_scan=True)
            else:
                ctx.judged()
                judge(ctx, ws, base, q, sens, multi, ("process", threads, env.get("VERIF_DELAY")), root)
                ctx.nontrivial(("proc", root[-6:], threads, j))
        finally:
            p.close()
    # CLI: byte equality across runs / worker counts (names that are order-sensitive are masked)
    outs = []
    for threads in ["1", "4", "16"]:
        rc, out, err = run_cli(srv_bin(), ["fixtures", "list", root], env={"RAYON_NUM_THREADS": threads})
        rc2, out2, err2 = run_cli(srv_bin(), ["fixtures", "unused", root, "--format", "json"], env={"RAYON_NUM_THREADS": threads})
        if "panicked" in err or "panicked" in err2:
            raise Inconclusive("CLI panicked (C11 territory)")
        outs.append((rc, out, rc2, out2))
    for o in outs[1:]:
        ctx.judged()
        if o != outs[0]:
            t0, _ = parse_tree(outs[0][1])
            t1, _ = parse_tree(o[1])
            diffnames = {k[1] for k in set(t0) | set(t1) if t0.get(k) != t1.get(k)}
            try:
                u0 = {(x["file"], x["fixture"]) for x in json.loads(outs[0][3])}
                u1 = {(x["file"], x["fixture"]) for x in json.loads(o[3])}
                diffnames |= {k[1] for k in u0 ^ u1}
            except Exception:
                diffnames.add("<unparsable json>")
            if diffnames and diffnames <= sens and ctx.known(KF_FIRST):
                continue
            ctx.violation({"kind": "cli-output-differs-between-runs", "names": sorted(diffnames)[:5]},
                          {"run0": outs[0][1][-600:], "runN": o[1][-600:]}, files=ws.files)
    ctx.count("process_workspaces")


def pinned(ctx, vh):
    """the two registration orders of the pinned witness give different answers for the name 'shared'"""
    from ..witness import WITNESS, ws_from_witness
    w = WITNESS[KF_FIRST]
    ws = ws_from_witness(ctx, w)
    files = sorted(ws.workspace_py())
    snaps = []
    sens = multi = set()
    for order in (w["order"], w["other_order"]):
        db = vh.new_db()
        vh.call(op="batch", cmds=[{"op": "analyze_fresh", "db": db, "path": ws.abs(r), "text": ws.files[r]} for r in order])
        snaps.append(keyed_queries(vh.call(op="queries", db=db, files=[ws.abs(r) for r in files])))
        if not sens:
            sens, multi = sensitive_names(ws, vh.call(op="raw", db=db))
        vh.call(op="drop_db", db=db)
    ctx.judged()
    judge(ctx, ws, snaps[0], snaps[1], sens, multi, ("pinned-witness", w["other_order"]), ws.root)
    shutil.rmtree(ws.root, ignore_errors=True)
