"""C18 — completion offers exactly the usable fixtures, only where they can be requested.

Monitor: generator ground truth per cursor line on the real server.  For every line of generated documents
(valid ones, and the incomplete forms produced while typing a signature) the context class is known from
CPython's ast (signature / body of a test or fixture, usefixtures or indirect-parametrize argument list,
anything else); the offered labels are compared with visible(file) - declared parameters - the fixture being
edited - narrower-scoped fixtures (inside a fixture); labels must be unique and sort same-file < conftest <
plugin < third-party.
"""
import ast, os, shutil

from .. import gen, srcgen
from ..common import Inconclusive, write_tree
from ..lsp import LSP
from ..pymodel import FileModel, SCOPES, is_fixture_decorator, is_mark, kw
from ..runner import srv_bin, materialize

KF_DECORATOR_LINES = "KF-C18-decorator-lines-count-as-signature"
KF_PAREN = "KF-C18-text-fallback-counts-parens-from-earlier-usefixtures"
KF_SPELLING = "KF-C18-text-fallback-knows-only-pytest.fixture-spelling"
KF_NESTED = "KF-C18-text-fallback-runs-on-valid-documents"


def line_classes(text):
    """{line1: (class, info)} from CPython's ast; class in
       signature/body (info = function node), usefixtures, indirect, parametrize_plain (don't care), none"""
    tree = ast.parse(text)
    n = len(text.split("\n"))
    cls = {i: ("none", None) for i in range(1, n + 1)}
    lines = text.split("\n")

    def mark_decorators(decos, owner):
        for d in decos:
            rng_ = range(d.lineno, d.end_lineno + 1)
            if isinstance(d, ast.Call) and is_mark(d.func, "usefixtures"):
                for l in rng_:
                    cls[l] = ("usefixtures", None)
            elif is_mark(d, "usefixtures"):
                for l in rng_:
                    cls[l] = ("usefixtures", None)
            elif isinstance(d, ast.Call) and is_mark(d.func, "parametrize"):
                for l in rng_:
                    cls[l] = ("indirect" if kw(d, "indirect") is not None else "parametrize_plain", None)
            else:
                for l in rng_:
                    if cls[l][0] == "none":
                        cls[l] = ("decorator", owner)

    def walk(body, in_func=None):
        for s in body:
            if isinstance(s, (ast.FunctionDef, ast.AsyncFunctionDef)):
                deco = next((d for d in s.decorator_list if is_fixture_decorator(d)), None)
                relevant = deco is not None or s.name.startswith("test_")
                if in_func is None:
                    if relevant:
                        # signature: def line .. line of the ':' that ends the signature
                        body_first = s.body[0].lineno
                        sig_end = s.lineno
                        # last signature token line: returns / args
                        last = s.lineno
                        for a in s.args.posonlyargs + s.args.args + s.args.kwonlyargs + ([s.args.vararg] if s.args.vararg else []) + ([s.args.kwarg] if s.args.kwarg else []):
                            last = max(last, a.end_lineno)
                        if s.returns is not None:
                            last = max(last, s.returns.end_lineno)
                        sig_end = last
                        for l in range(last, body_first + 1):
                            if l - 1 < len(lines) and lines[l - 1].rstrip().endswith(":"):
                                sig_end = l
                                break
                        for l in range(s.lineno, s.end_lineno + 1):
                            cls[l] = ("signature" if l <= sig_end else "body", s)
                        if body_first == s.lineno:
                            cls[s.lineno] = ("signature", s)
                    mark_decorators(s.decorator_list, s if relevant else None)
                # nested defs stay part of the enclosing body
            elif isinstance(s, ast.ClassDef):
                mark_decorators(s.decorator_list, None)
                walk(s.body, in_func)
            elif isinstance(s, (ast.Assign, ast.AnnAssign)):
                tgt = s.targets[0] if isinstance(s, ast.Assign) else s.target
                if isinstance(tgt, ast.Name) and tgt.id == "pytestmark" and s.value is not None:
                    def rec(v):
                        if isinstance(v, ast.Call) and is_mark(v.func, "usefixtures"):
                            for l in range(v.lineno, v.end_lineno + 1):
                                cls[l] = ("usefixtures", None)
                        elif isinstance(v, (ast.List, ast.Tuple)):
                            for e in v.elts:
                                rec(e)
                    rec(s.value)
    walk(tree.body)
    return cls


def fixture_scope_of(fnode):
    deco = next((d for d in fnode.decorator_list if is_fixture_decorator(d)), None)
    if deco is None:
        return None
    if isinstance(deco, ast.Call):
        sk = kw(deco, "scope")
        if isinstance(sk, ast.Constant) and isinstance(sk.value, str) and sk.value in SCOPES:
            return sk.value
    return "function"


def expected_items(model, file, fnode_or_none, declared=None, fix_name=None, fix_scope=None, filtered=True):
    vis = model.visible_names(file)
    out = {}
    for name, res in vis.items():
        if res[0] == "def":
            d, src = res[2], res[1]
            scope = d["scope"]
            group = 0 if src == file else 1
            if src != file and src in getattr(model, "plugin_files", ()):
                # defined in a plugin module AND re-exported by a conftest on the path: "conftest" and "plugin" both describe it
                group = "12"
        else:
            cands = res[2]
            scope = cands[0][1]["scope"]
            group = 2 if res[1] == "plugin" else 3
            if len({c[1]["scope"] for c in cands}) > 1:
                scope = None      # ambiguous tier pick: scope filter not judged for this name
        if name in ("self", "cls"):
            continue
        if filtered:
            if declared and name in declared:
                continue
            if fix_name and name == fix_name:
                continue
            if fix_scope and scope is not None and SCOPES.index(scope) < SCOPES.index(fix_scope):
                continue
            if fix_scope and scope is None:
                out[name] = (group, "maybe")
                continue
        out[name] = (group, "yes")
    return out


def judge_line(ctx, srv, model, f, text, line1, col, klass, info, files, tag, declared_override=None, func_override=None):
    r = srv.completion(f, line1 - 1, col)
    if not r["answered"]:
        raise Inconclusive("completion unanswered")
    items = r.get("result")
    if isinstance(items, dict):
        items = items.get("items")
    ctx.judged()
    if klass == "parametrize_plain":
        ctx.count("dont_care_parametrize_without_indirect")
        return
    if klass in ("none", "decorator"):
        if items:
            if klass == "decorator" and info is not None and ctx.known(KF_DECORATOR_LINES):
                ctx.count("kf_decorator_line")
                return
            ltxt = text.split("\n")[line1 - 1]
            if klass == "none" and tag == "valid" and ltxt.startswith((" ", "\t")) and ltxt.strip().startswith(("def test_", "async def test_")) \
                    and ctx.known(KF_NESTED):
                ctx.count("kf_nested_test_def_line")
                return
            if klass == "none" and tag == "typing":
                lines_ = text.split("\n")
                above = lines_[max(0, line1 - 11):line1]
                unfiltered = {n for n, (g, c) in expected_items(model, f, None, filtered=False).items()}
                if any("usefixtures(" in l for l in above) and {i["label"] for i in items} == unfiltered and ctx.known(KF_PAREN):
                    ctx.count("kf_paren_count")
                    return
            ctx.violation({"kind": "completion-offered-outside-requestable-context", "class": klass, "tag": tag,
                           "line": text.split("\n")[line1 - 1][:60]},
                          {"line1": line1, "labels": [i["label"] for i in items][:8]}, files=files)
        return
    labels = [i["label"] for i in (items or [])]
    if len(labels) != len(set(labels)):
        ctx.violation({"kind": "duplicate-labels", "tag": tag}, {"labels": sorted(labels)}, files=files)
    if klass in ("usefixtures", "indirect"):
        exp = expected_items(model, f, None, filtered=False)
    else:
        if func_override is not None:
            name, is_fix, scope, declared = func_override
        else:
            fn = info
            declared = [a.arg for a in fn.args.posonlyargs + fn.args.args + fn.args.kwonlyargs]
            scope = fixture_scope_of(fn)
            is_fix = scope is not None
            name = fn.name
        exp = expected_items(model, f, None, declared=set(declared), fix_name=name if is_fix else None,
                             fix_scope=scope if is_fix else None)
    must = {n for n, (g, c) in exp.items() if c == "yes"}
    may = {n for n, (g, c) in exp.items() if c == "maybe"}
    got = set(labels)
    if not (must <= got <= must | may) and tag == "typing":
        lines_ = text.split("\n")
        above = lines_[max(0, line1 - 11):line1]
        unfiltered = {n for n, (g, c) in expected_items(model, f, None, filtered=False).items()}
        if any("usefixtures(" in l for l in above) and got == unfiltered and ctx.known(KF_PAREN):
            ctx.count("kf_paren_count")
            return
        # decorator spellings the text fallback does not recognise: nothing is offered for such a fixture
        k_ = line1 - 1
        while k_ > 0 and not lines_[k_].lstrip().startswith(("def ", "async def ")):
            k_ -= 1
        decos = []
        j = k_ - 1
        while j >= 0 and (lines_[j].strip().startswith("@") or not lines_[j].strip()):
            if lines_[j].strip():
                decos.append(lines_[j].strip())
            j -= 1
        fixture_like = [d_ for d_ in decos if "fixture" in d_]
        recognised = [d_ for d_ in fixture_like if "pytest.fixture" in d_ or d_.startswith("@fixture")]
        fn_name = lines_[k_].strip().split("def ", 1)[-1].split("(")[0] if k_ >= 0 else ""
        as_test = {n for n, (g, c) in expected_items(model, f, None, declared=set(func_override[3]) if func_override else set()).items()}
        if fixture_like and not recognised and (not got or (fn_name.startswith("test_") and got == as_test)) and ctx.known(KF_SPELLING):
            ctx.count("kf_decorator_spelling")
            return
    if not (must <= got <= must | may):
        ctx.violation({"kind": "offered-set", "class": klass, "tag": tag, "missing": sorted(must - got)[:5],
                       "unexpected": sorted(got - must - may)[:5]},
                      {"line1": line1, "line": text.split("\n")[line1 - 1][:80]}, files=files)
        return
    # sort groups
    for it in items or []:
        g = exp.get(it["label"], (None,))[0]
        st = it.get("sortText") or ""
        if g is not None and (not st or st[0] not in str(g)):
            ctx.violation({"kind": "sort-group", "label": it["label"], "tag": tag}, {"sortText": st, "expected_group": g}, files=files)
            break
    ctx.nontrivial((klass, tag, len(must) > 0, len(may) > 0, min(len(got), 6),
                    (func_override[1], func_override[2]) if func_override else (fixture_scope_of(info) if info is not None else None)))


def concurrent_offer(ctx, count):
    """the set completion offers for a file is computed (and cached) by one request while an edit of the conftest (one
    fixture added, one moved) completes on another thread; at quiescence the offered set is the one of the final contents"""
    import json as _j
    from ..vh import VH
    from ..runner import vh_bin
    from .c07 import CQ_CONF1, CQ_CONF2, CQ_TEST
    D = "/vf_c18/pkg"
    conf, test = f"{D}/conftest.py", f"{D}/test_t.py"
    setup = [{"op": "analyze", "db": 0, "path": conf, "text": CQ_CONF1}, {"op": "analyze", "db": 0, "path": test, "text": CQ_TEST}]
    threads = [[{"op": "analyze", "db": 0, "path": conf, "text": CQ_CONF2}],
               [{"op": "available", "db": 0, "path": test}, {"op": "available", "db": 0, "path": test}],
               [{"op": "available", "db": 0, "path": test}]]
    after = [{"op": "available", "db": 0, "path": test, "observe": True}]
    vh = VH(vh_bin(), locklog=os.path.join(ctx.scratch_root, "lock_vh_co.log"), env={"VERIF_SHARDS": "2"})
    try:
        cold = vh.call(op="sched_scenario", setup=setup, threads=threads, after=after, seed=0, count=1, sequential=[0, 1, 2])
        want = None
        for o in cold["outcomes"]:
            v = _j.loads(o["index"].split(";;OBS=", 1)[-1])
            want = sorted((a["name"], a["line"]) for a in v["available"])
        if not want or ("extra", ) not in {(n_,) for n_, _ in want}:
            raise Inconclusive(f"reference observation unusable: {want}")
        for mode, pct in (("uniform", None), ("pct2", 2)):
            r = vh.call(op="sched_scenario", setup=setup, threads=threads, after=after, seed=ctx.seed * 53 + 11, count=count, pct=pct, est=200, timeout=1800)
            if isinstance(r, dict) and r.get("sched_deadlock"):
                # every thread of the scenario is blocked on a map lock held by another: no outcome at all
                ctx.violation({"kind": "deadlock-under-scheduler", "where": "c18"}, {"detail": str(r.get("detail", ""))[:1500]})
                break
            if "distinct_schedules" not in r:
                raise Inconclusive(f"harness refused the scenario: {str(r)[:300]}")
            ctx.judged(count)
            for o in r["outcomes"]:
                v = _j.loads(o["index"].split(";;OBS=", 1)[-1])
                got = sorted((a["name"], a["line"]) for a in v["available"])
                if got != want:
                    ctx.violation({"kind": "offered-set-after-concurrent-edit-is-stale", "mode": mode},
                                  {"seed": o["first_seed"], "count": o["count"], "offered": got, "final_contents": want})
            ctx.nontrivial(("concurrent_offer", mode, r["distinct_schedules"] > 10))
    finally:
        vh.close()


def directed_scopes(ctx):
    """a conftest.py that binds one name twice with different scopes (the later binding is the one pytest injects), and
    fixtures of the document whose @pytest.fixture(scope=...) line is not the decorator closest to the def: what is offered
    inside a broader-scoped fixture is judged on every line of the document"""
    root = ctx.scratch("directed_scopes")
    ws = gen.WS(root)
    H = "import pytest\n\n"
    f2 = lambda n, sc, v: (f'@pytest.fixture(scope="{sc}")' if sc else "@pytest.fixture") + f"\ndef {n}():\n    return {v}\n\n"
    ws.files = {"conftest.py": H + f2("db", "session", 1) + f2("sess_only", "session", 2) + f2("db", None, 3) + f2("narrow_then_wide", None, 4)
                               + f2("mod_fx", "module", 5) + f2("narrow_then_wide", "session", 6),
                "pkg/conftest.py": H + f2("pkg_fx", "package", 7) + f2("pkg_fx", "class", 8),
                "pkg/test_doc.py": "import functools\n" + H
                                   + '@pytest.fixture(scope="module")\ndef engine():\n    return 1\n\n'
                                   + '@pytest.fixture(scope="session")\n@functools.lru_cache\ndef cached_engine():\n    return 1\n\n'
                                   + '@other.decorator\n@pytest.fixture(scope="package")\n@functools.wraps(engine)\ndef wrapped():\n    return 1\n\n'
                                   + "@pytest.fixture\ndef plain():\n    return 1\n\ndef test_t():\n    pass\n"}
    ws.spec = {"directed": "redefinition with another scope; stacked decorators", "depth": 1}
    materialize(ws)
    rel = "pkg/test_doc.py"
    doc = ws.files[rel]
    model = ws.model()
    f = ws.abs(rel)
    srv = LSP(srv_bin(), root, locklog=os.path.join(ctx.scratch_root, "lock_srv.log"))
    try:
        srv.initialize()
        srv.did_open(f, doc)
        classes = line_classes(doc)
        lines = doc.split("\n")
        for l1 in range(1, len(lines) + 1):
            klass, info = classes.get(l1, ("none", None))
            txt = lines[l1 - 1]
            col = len(txt) - len(txt.lstrip()) if klass == "body" else (txt.find("(") + 1 if "(" in txt else len(txt))
            judge_line(ctx, srv, model, f, doc, l1, col, klass, info, ws.files, "directed_scopes")
        ctx.nontrivial(("directed_scopes",))
    finally:
        srv.shutdown()
        shutil.rmtree(root, ignore_errors=True)


def run(ctx):
    quick = ctx.tier == "quick"
    n = 14 if quick else 500
    ctx.rule = ("every cursor line of generated documents (valid; and truncated while typing a signature) placed in workspaces "
                "with conftest chains, scopes, plugin and third-party fixtures; context class and offered set vs ground truth; "
                "distinct = (context class, document kind, non-empty expected set)")
    pinned(ctx)
    if os.environ.get("VERIF_ONLY_PINNED"):
        return
    concurrent_offer(ctx, 300 if quick else 30000)
    directed_scopes(ctx)
    for i in range(n):
        root = ctx.scratch(f"w{i}")
        ws = gen.gen_workspace(root, ctx.rng, depth=ctx.rng.randint(1, 2), venv=(i % 2 == 0), allow_imports=False,
                               allow_redefine=False, collisions=False)
        # the document under test lives in the deepest directory
        deep = sorted({os.path.dirname(r) for r in ws.files if r.endswith("test_probe.py")}, key=len)[-1]
        s = srcgen.gen_source(ctx.rng, crlf=False, tabs=False)
        # let the document use the workspace's names too
        doc = s.text()
        rel = os.path.join(deep, "test_doc.py")
        ws.files[rel] = doc
        materialize(ws)
        try:
            compile(doc, "<doc>", "exec", dont_inherit=True)
        except Exception:
            ctx.count("skipped_outside_grammar")
            shutil.rmtree(root, ignore_errors=True)
            continue
        model = ws.model()
        f = ws.abs(rel)
        # with a workspace plugin: its entry module is already open in the editor when the start-up scan reaches the venv phase
        early = ("workspace_plugin",) in ws.features
        gate = ctx.scratch(f"gate{i}") if early else None
        srv = LSP(srv_bin(), root, locklog=os.path.join(ctx.scratch_root, "lock_srv.log"),
                  env=({"VERIF_SCAN_PHASE_GATE": gate} if early else None))
        try:
            srv.initialize(wait_scan=not early)
            if early:
                import time as _t
                t_end = _t.time() + 30
                while not os.path.exists(os.path.join(gate, "phase2_done.reached")) and _t.time() < t_end:
                    srv.pump(0.05)
                if not os.path.exists(os.path.join(gate, "phase2_done.reached")):
                    raise Inconclusive("phase failpoint not reached")
                pm = ws.abs("wsplug/plugin_mod.py")
                before = srv.seq
                srv.did_open(pm, ws.files["wsplug/plugin_mod.py"])
                srv.wait_diagnostics(pm, before, timeout=20)
                open(os.path.join(gate, "phase2_done.go"), "w").close()
                srv.wait_log("Workspace scan complete", 60)
                ctx.nontrivial(("plugin_module_open_before_venv_phase",))
            srv.did_open(f, doc)
            classes = line_classes(doc)
            lines = doc.split("\n")
            for l1 in range(1, len(lines) + 1):
                klass, info = classes.get(l1, ("none", None))
                txt = lines[l1 - 1]
                col = len(txt) - len(txt.lstrip()) if klass == "body" else (txt.find("(") + 1 if "(" in txt else len(txt))
                judge_line(ctx, srv, model, f, doc, l1, col, klass, info, ws.files, "valid")
            # ---- incomplete forms: truncate while typing a signature -------------------------------------------
            tree = ast.parse(doc)
            funcs = [n_ for n_ in tree.body if isinstance(n_, (ast.FunctionDef, ast.AsyncFunctionDef))]
            ctx.rng.shuffle(funcs)
            for fn in funcs[:3]:
                deco = next((d for d in fn.decorator_list if is_fixture_decorator(d)), None)
                relevant = deco is not None or fn.name.startswith("test_")
                params = [a.arg for a in fn.args.posonlyargs + fn.args.args + fn.args.kwonlyargs]
                head = "\n".join(lines[:fn.lineno - 1])
                d = "async def" if isinstance(fn, ast.AsyncFunctionDef) else "def"
                forms = []
                for k in range(0, len(params) + 1):
                    typed = params[:k]
                    forms.append((f"{d} {fn.name}(" + ", ".join(typed) + (", " if typed else ""), typed))
                    forms.append((f"{d} {fn.name}(" + ", ".join(typed), typed))
                    if k == len(params):
                        forms.append((f"{d} {fn.name}(" + ", ".join(typed) + "):", typed))
                    forms.append((f"{d} {fn.name}(\n    " + ",\n    ".join(typed) + (",\n    " if typed else ""), typed))
                for sig, typed in forms[: (6 if quick else 30)]:
                    t2 = (head + "\n" if head else "") + sig
                    try:
                        ast.parse(t2)
                        continue        # accidentally valid: not an incomplete form
                    except SyntaxError:
                        pass
                    before = srv.seq
                    srv.did_change(f, t2)
                    srv.wait_diagnostics(f, before, timeout=20)
                    l1 = len(t2.split("\n"))
                    colx = len(t2.split("\n")[-1])
                    scope = fixture_scope_of(fn)
                    if relevant:
                        # a half-typed last parameter is not a declared one yet; the generator only emits whole names
                        judge_line(ctx, srv, model, f, t2, l1, colx, "signature", None, ws.files | {rel: t2}, "typing",
                                   func_override=(fn.name, scope is not None, scope, typed))
                    else:
                        judge_line(ctx, srv, model, f, t2, l1, colx, "none", None, ws.files | {rel: t2}, "typing")
                srv.did_change(f, doc)
            if i % 2 == 1:
                # a large new version and a completion request leave the editor together: the answer is about the new text
                from ..lsp import path_to_uri
                pad = "".join(f"def helper_pad_{k}(a, b):\n    c = [a, b]\n    return c\n\n" for k in range(2500))
                big = doc.rstrip("\n") + "\n\n" + pad + "@pytest.fixture\ndef late_fixture_xyz():\n    return 1\n\ndef test_late():\n    pass\n"
                if "import pytest" in doc:
                    bl = big.split("\n")
                    ln = len(bl) - 3
                    with srv.batch():
                        srv.did_change(f, big)
                        rec = srv.request_nowait("textDocument/completion", {"textDocument": {"uri": path_to_uri(f)},
                                                                               "position": {"line": ln, "character": len("def test_late(")}})
                    srv.wait_for(rec, timeout=60)
                    ctx.judged()
                    if not rec["answered"]:
                        raise Inconclusive("completion unanswered")
                    items = rec.get("result") or []
                    if isinstance(items, dict):
                        items = items.get("items", [])
                    labels = {it["label"] for it in items}
                    if "late_fixture_xyz" not in labels:
                        ctx.violation({"kind": "completion-sent-with-a-change-answers-about-the-previous-text"},
                                      {"offered": sorted(labels)[:10], "expected_to_contain": "late_fixture_xyz", "line": ln}, files={"doc.py": doc[:2000]})
                    ctx.nontrivial(("completion_behind_change",))
                    srv.did_change(f, doc)
            if early:
                # the plugin module itself is being edited: its own fixtures are "same file" there
                ptext = ws.files["wsplug/plugin_mod.py"]
                pcl = line_classes(ptext)
                pl = ptext.split("\n")
                for l1 in range(1, len(pl) + 1):
                    klass, info = pcl.get(l1, ("none", None))
                    if klass not in ("signature", "body"):
                        continue
                    txt = pl[l1 - 1]
                    col = len(txt) - len(txt.lstrip()) if klass == "body" else (txt.find("(") + 1 if "(" in txt else len(txt))
                    judge_line(ctx, srv, model, pm, ptext, l1, col, klass, info, ws.files, "plugin_module")
                ctx.nontrivial(("plugin_module_edited",))
            ctx.sample({"doc": doc[:1000], "visible": sorted(model.visible_names(f))})
            ctx.count("documents")
        finally:
            un = srv.unanswered()
            srv.shutdown()
            shutil.rmtree(root, ignore_errors=True)
            if un:
                raise Inconclusive("server stopped answering")


PIN_CONF = "import pytest\n\n@pytest.fixture\ndef fa():\n    return 1\n\n@pytest.fixture(scope=\"session\")\ndef fs():\n    return 1\n"
PIN_PAREN = "import pytest\n\n@pytest.mark.usefixtures('fa')\ndef test_x():\n    pass\n\n@pytest.fixture\ndef fx6(fa, "
PIN_SPELL = "import pytest, pytest_asyncio\n\n\n@pytest_asyncio.fixture\ndef fx7("
PIN_NESTED = "import pytest\n\ndef helper(a):\n    def test_inner(q):\n        pass\n    return a\n"


def pinned(ctx):
    """one document per recorded text-fallback finding, judged by judge_line like every generated line"""
    root = ctx.scratch("pinned")
    ws = gen.WS(root)
    ws.files = {"conftest.py": PIN_CONF, "test_doc.py": PIN_NESTED}
    materialize(ws)
    f = ws.abs("test_doc.py")
    srv = LSP(srv_bin(), root, locklog=os.path.join(ctx.scratch_root, "lock_srv.log"))
    try:
        srv.initialize()
        srv.did_open(f, PIN_NESTED)
        model = ws.model()
        judge_line(ctx, srv, model, f, PIN_NESTED, 4, 8, "none", None, ws.files, "valid")
        for text, name in ((PIN_PAREN, "fx6"), (PIN_SPELL, "fx7")):
            before = srv.seq
            srv.did_change(f, text)
            srv.wait_diagnostics(f, before, timeout=20)
            l1 = len(text.split("\n"))
            judge_line(ctx, srv, model, f, text, l1, len(text.split("\n")[-1]), "signature", None, ws.files | {"test_doc.py": text}, "typing",
                       func_override=(name, True, "function", ["fa"] if name == "fx6" else []))
    finally:
        srv.shutdown()
        shutil.rmtree(root, ignore_errors=True)
