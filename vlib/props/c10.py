"""C10 — editor buffers win over the background scan.

Monitor: quiescent-state checker for {scan worker analyses F from disk} || {didOpen/didChange(F, buffer)}.
  (a) library level: both sequential orders and N seeded interleavings under the scheduler of the
      instrumented DashMap; after quiescence the records of F must be exactly those of a single
      analysis of the buffer; after ONE further change they must be exactly the single-analysis
      state of that text (strict, no known finding applies there).
  (b) real server: the scan failpoint (cfg hook) holds the scan's visit of F so that the
      notification is placed before / after it deterministically; plus unsynchronised runs with
      injected delays where the event log (cfg hook) tells which order occurred.
"""
import json, os, shutil, time

from ..common import Inconclusive, write_tree, hash_str
from ..lsp import LSP, uri_to_path
from ..pymodel import FileModel
from ..runner import vh_bin, srv_bin
from ..vh import VH, VHDied

KF = "KF-C10-scan-after-open"

HDR = "import pytest\n\n"


def fxs(names, tag):
    return "".join(f"@pytest.fixture\ndef {n}():\n    \"\"\"{tag}\"\"\"\n    return 1\n\n" for n in names)


def variants(kind, rng):
    """(disk, buffer, further) texts for F"""
    if kind in ("conftest", "plugin_conftest"):
        disk = HDR + fxs(["shared", "disk_only"], "disk")
        buf = HDR + fxs(["shared", "buf_only"], "buffer") + "\n"
        further = HDR + "\n" + fxs(["shared", "third"], "further")
    else:
        disk = HDR + fxs(["local"], "disk") + "def test_d(shared, local):\n    pass\n"
        buf = HDR + "\n" + fxs(["local", "buf_only"], "buffer") + "def test_b(shared, buf_only):\n    pass\n\ndef test_b2(local):\n    pass\n"
        further = HDR + fxs(["local"], "further") + "def test_f(local, shared):\n    pass\n"
    return disk, buf, further


def f_records(index_key, F):
    """the part of the canonical index text that concerns file F"""
    out = []
    for part in index_key.split(";"):
        if not part:
            continue
        head, _, body = part.partition("=")
        items = [x for x in body.split(",") if x]
        mine = sorted(x for x in items if f"@{F}:" in x) if head[0] in "DUR" else (items if head == f"F[{F}]" else [])
        if head[0] == "F" and head != f"F[{F}]":
            continue
        if mine:
            out.append((head, tuple(mine)))
    return sorted(out)


def run(ctx):
    quick = ctx.tier == "quick"
    per = 300 if quick else 20000
    ctx.rule = ("F in {test file, conftest.py}, buffer = / != disk; library: both sequential orders + seeded interleavings "
                "of analyze_fresh(F,disk) || analyze(F,buffer) (|| analysis of another file), judged on F's records and "
                "on the state after one further change; server: failpoint-placed and delay-injected orders; distinct = "
                "(level, F kind, order/interleaving class, outcome class)")
    vh = VH(vh_bin(), env={"VERIF_SHARDS": "2"}, locklog=os.path.join(ctx.scratch_root, "lock_vh.log"))
    D = "/vf_c10/pkg"
    G = f"{D}/test_other.py"
    gtext = HDR + fxs(["shared"], "other") + "def test_o(shared):\n    pass\n"
    try:
        for kind in ("conftest", "test"):
            F = f"{D}/conftest.py" if kind == "conftest" else f"{D}/test_f.py"
            for same in (False, True):
                disk, buf, further = variants(kind, ctx.rng)
                if same:
                    buf = disk

                def single(text):
                    r = vh.call(op="sched_scenario", setup=[], threads=[[an(F, text)], [an(G, gtext, True)]], seed=0, count=1,
                                sequential=[1, 0])
                    return r["outcomes"][0]["index"]
                exp_buf, exp_further, exp_disk = single(buf), single(further), single(disk)
                threads = [[an(F, disk, True)], [an(F, buf)], [an(G, gtext, True)]]
                # --- sequential orders ---------------------------------------------------------------
                for order, oname in (([0, 1, 2], "visit_first"), ([1, 0, 2], "open_first")):
                    r = vh.call(op="sched_scenario", setup=[], threads=threads, seed=0, count=1, sequential=order)
                    classify(ctx, r, F, exp_buf, buf, disk, ("vh", kind, same, oname), strict=(oname == "visit_first"))
                    for ftext, fexp, fname in ((further, exp_further, "new_text"), (disk, exp_disk, "disk_text"), (buf, exp_buf, "same_buffer")):
                        r = vh.call(op="sched_scenario", setup=[], threads=threads, seed=0, count=1, sequential=order,
                                    after=[an(F, ftext)])
                        restored(ctx, r, fexp, ("vh", kind, same, oname, fname))
                # --- interleavings ---------------------------------------------------------------------
                for mode, pct in (("uniform", None), ("pct2", 2)):
                    try:
                        r = vh.call(op="sched_scenario", setup=[], threads=threads, seed=ctx.seed * 7919, count=per, pct=pct,
                                    est=150, timeout=1200)
                        if isinstance(r, dict) and r.get("sched_deadlock"):
                            ctx.violation({"kind": "deadlock-under-scheduler", "where": (kind, same, mode)}, {"detail": str(r.get("detail", ""))[:1500]})
                            continue
                        classify(ctx, r, F, exp_buf, buf, disk, ("vh", kind, same, mode), strict=False)
                        ctx.count("schedules", per)
                        ctx.extra["distinct_schedules"] = ctx.extra.get("distinct_schedules", 0) + r["distinct_schedules"]
                        r = vh.call(op="sched_scenario", setup=[], threads=threads, seed=ctx.seed * 7919, count=per, pct=pct,
                                    est=150, after=[an(F, further)], timeout=1200)
                        restored(ctx, r, exp_further, ("vh", kind, same, mode, "new_text"))
                    except VHDied as e:
                        if e.returncode == 97:
                            ctx.violation({"kind": "deadlock", "where": (kind, same, mode)}, {"stderr": e.stderr[-1500:]})
                            vh = VH(vh_bin(), env={"VERIF_SHARDS": "2"})
                        else:
                            raise Inconclusive(f"harness died: {e}")
        ctx.sample({"F": "conftest.py", "disk": variants("conftest", ctx.rng)[0], "buffer": variants("conftest", ctx.rng)[1]})
    finally:
        vh.close()
    server_level(ctx, quick)


def an(path, text, fresh=False):
    return {"op": "analyze_fresh" if fresh else "analyze", "db": 0, "path": path, "text": text}


def classify(ctx, r, F, exp_buf, buf, disk, tag, strict):
    if r.get("panics"):
        ctx.violation({"kind": "panic", "tag": tag}, {"panics": r["panics"][:2]})
    want = f_records(exp_buf, F)
    for o in r["outcomes"]:
        ctx.judged(o["count"])
        got = f_records(o["index"], F)
        if got == want and not o["invariants"]:
            ctx.nontrivial(tag + ("exact",))
            continue
        if not strict and only_buffer_and_disk(got, exp_buf, F, disk) and ctx.known(KF):
            ctx.nontrivial(tag + ("disk_content_present",))
            ctx.count("kf_outcomes", o["count"])
            continue
        ctx.violation({"kind": "index-of-F-is-not-the-buffer", "tag": tag},
                      {"seed": o["first_seed"], "count": o["count"], "got": got, "want": want, "invariants": o["invariants"][:4]})


_DISK_CACHE = {}


def only_buffer_and_disk(got, exp_buf, F, disk):
    """every record of F stems from the buffer's or the disk's analysis (the recorded finding),
    nothing from anywhere else, nothing more often than those two analyses together produce it"""
    key = (F, disk)
    if key not in _DISK_CACHE:
        p = VH(vh_bin())
        try:
            r = p.call(op="sched_scenario", setup=[], threads=[[an(F, disk)]], seed=0, count=1, sequential=[0])
            _DISK_CACHE[key] = r["outcomes"][0]["index"]
        finally:
            p.close()
    d = dict(f_records(_DISK_CACHE[key], F))
    b = dict(f_records(exp_buf, F))
    for head, items in got:
        allowed = list(d.get(head, ())) + list(b.get(head, ()))
        for it in items:
            if it in allowed:
                allowed.remove(it)
            else:
                return False
    return True


def restored(ctx, r, exp, tag):
    for o in r["outcomes"]:
        ctx.judged(o["count"])
        if o["index"] != exp or o["invariants"]:
            ctx.violation({"kind": "one-further-change-does-not-restore", "tag": tag},
                          {"seed": o["first_seed"], "count": o["count"], "got": o["index"], "want": exp,
                           "invariants": o["invariants"][:4]})
        else:
            ctx.nontrivial(tag + ("restored",))


# ------------------------------------------------------------------------------------------------------------

def symbols(srv, f):
    r = srv.document_symbol(f)
    if not r["answered"]:
        raise Inconclusive("documentSymbol unanswered")
    return sorted((s["name"], s["selectionRange"]["start"]["line"] + 1) for s in (r.get("result") or []))


def ws_symbols(srv, rel):
    """(name, line) of every workspace symbol located in a document whose path ends with rel, whatever the spelling
    of the directories above it"""
    r = srv.workspace_symbol("")
    if not r["answered"]:
        raise Inconclusive("workspace/symbol unanswered")
    return sorted((s["name"], s["location"]["range"]["start"]["line"] + 1) for s in (r.get("result") or [])
                  if s["location"]["uri"].endswith("/" + rel))


def expected_symbols(text):
    m = FileModel(text)
    return sorted((d["name"], d["line"]) for d in m.defs)


def refs_ok(ctx, srv, f, text, tag):
    m = FileModel(text)
    for d in m.defs:
        r = srv.references(f, d["line"] - 1, d["name_span"]["start_b"])
        locs = [(x["uri"], x["range"]["start"]["line"], x["range"]["start"]["character"]) for x in (r.get("result") or [])]
        ctx.judged()
        if len(locs) != len(set(locs)):
            ctx.violation({"kind": "reference-listed-twice", "tag": tag}, {"locs": locs})
    cl = srv.code_lens(f)
    lines = sorted(l["range"]["start"]["line"] + 1 for l in (cl.get("result") or []))
    ctx.judged()
    if lines != sorted(d["line"] for d in m.defs):
        return lines
    return None


def server_level(ctx, quick):
    orders_seen = set()
    n = 3 if quick else 40
    for it in range(n):
        for kind in ("conftest", "test", "plugin_pkg", "plugin_conftest"):
            for placement in ("open_first", "visit_first", "unsynchronised", "burst"):
                for further_kind in ("new_text", "disk_text"):
                    if quick and (it + hash_str(kind + placement + further_kind)) % 3 != 0 and not (it == 0):
                        continue
                    one_server_run(ctx, kind, placement, further_kind, orders_seen, it)
    ctx.extra["server_orders_observed"] = sorted(orders_seen)
    if not ({"open_first", "visit_first"} <= {o for _, o in orders_seen}):
        raise Inconclusive(f"both orders must be observed on the server, saw {sorted(orders_seen)}")


def one_server_run(ctx, kind, placement, further_kind, orders_seen, it):
    root = ctx.scratch("srv")
    disk, buf, further = variants(kind, ctx.rng)
    rel = {"conftest": "pkg/conftest.py", "test": "pkg/test_f.py", "plugin_pkg": "myplug/test_inside.py",
           "plugin_conftest": "myplug/conftest.py"}[kind]
    files = {rel: disk, "pkg/test_other.py": HDR + fxs(["shared"], "other") + "def test_o(shared):\n    pass\n",
             "conftest.py": HDR + fxs(["shared"], "root")}
    if kind == "plugin_conftest":
        # F is a conftest.py that the entry-point module of an editable in-workspace plugin star-imports: the scan's import
        # phase marks it as a plugin module and analyses it once more, long after the parallel phase visited it
        sp = ".venv/lib/python3.12/site-packages"
        files.update({"myplug/__init__.py": "", "myplug/plugin.py": "from .conftest import *\n" + HDR + fxs(["from_plugin_mod"], "plugin"),
                      "myplug/test_in_pkg.py": "def test_in_pkg(shared):\n    pass\n",
                      f"{sp}/myplug-0.1.dist-info/entry_points.txt": "[pytest11]\nmp = myplug.plugin\n",
                      f"{sp}/myplug-0.1.dist-info/direct_url.json": json.dumps({"url": "file://" + root, "dir_info": {"editable": True}}),
                      f"{sp}/__editable__.myplug-0.1.pth": root + "\n", ".venv/pyvenv.cfg": "home = /usr/bin\n"})
    if kind == "plugin_pkg":
        # the project is itself a pytest plugin (package entry point), installed editable into its own venv; F is a test
        # module inside the plugin package: the scan's later venv / plugin phase walks that package again
        sp = ".venv/lib/python3.12/site-packages"
        files.update({"myplug/__init__.py": HDR + fxs(["from_plugin_pkg"], "plugin"),
                      "myplug/helpers.py": HDR + fxs(["plug_helper"], "plugin"),
                      f"{sp}/myplug-0.1.dist-info/entry_points.txt": "[pytest11]\nmp = myplug\n",
                      f"{sp}/myplug-0.1.dist-info/direct_url.json": json.dumps({"url": "file://" + root, "dir_info": {"editable": True}}),
                      f"{sp}/__editable__.myplug-0.1.pth": root + "\n", ".venv/pyvenv.cfg": "home = /usr/bin\n"})
    # filler so that the unsynchronised case really races
    for i in range(60):
        files[f"bulk/test_b{i}.py"] = "def test_b(shared):\n    pass\n"
    write_tree(root, files)
    F = os.path.join(root, rel)
    gate = ctx.scratch("gate")
    evlog = os.path.join(gate, "events.log")
    env = {"VERIF_EVENT_LOG": evlog, "VERIF_DELAY": f"{ctx.seed + it}:200000"}
    if placement not in ("unsynchronised", "burst"):
        env.update({"VERIF_SCAN_GATE": gate, "VERIF_SCAN_GATE_MATCH": "/" + rel})
    hold_phase = kind in ("plugin_pkg", "plugin_conftest") and placement == "visit_first"
    if hold_phase:
        # the editor's change arrives after the scan's parallel phase visited F but before its venv / plugin phase
        env["VERIF_SCAN_PHASE_GATE"] = gate
    # the editor may name the workspace (and its documents) through a symbolic link
    via_link = ctx.rng.random() < 0.34
    lroot = None
    if via_link:
        lroot = os.path.join(ctx.scratch("lnk"), "ws_link")
        if os.path.lexists(lroot):
            os.unlink(lroot)
        os.symlink(root, lroot)
    Freal = F
    srv = LSP(srv_bin(), lroot or root, env=env, locklog=os.path.join(ctx.scratch_root, "lock_srv.log"))
    tag = ("srv", kind, placement, further_kind) + (("via_symlink",) if via_link else ())
    if via_link:
        F = os.path.join(lroot, rel)
    try:
        srv.initialize(wait_scan=False)
        if placement == "open_first":
            wait_file(srv, os.path.join(gate, "visit.0"))
            before = srv.seq
            srv.did_open(F, buf)
            srv.wait_diagnostics(F, before, timeout=30)
            open(os.path.join(gate, "go.0"), "w").close()
        elif placement == "visit_first":
            wait_file(srv, os.path.join(gate, "visit.0"))
            open(os.path.join(gate, "go.0"), "w").close()
            wait_file(srv, os.path.join(gate, "done.0"))
            if hold_phase:
                wait_file(srv, os.path.join(gate, "phase2_done.reached"))
            before = srv.seq
            srv.did_open(F, buf)
            srv.wait_diagnostics(F, before, timeout=30)
            if hold_phase:
                open(os.path.join(gate, "phase2_done.go"), "w").close()
                tag = tag + ("held_before_venv_phase",)
        elif placement == "burst":
            # didOpen with a large text and the first edit leave the editor together, while the scan runs
            big = disk + "\n" + "".join(f"@pytest.fixture\ndef pasted_{i}():\n    return {i}\n\n" for i in range(3000))
            before = srv.seq
            with srv.batch():
                srv.did_open(F, big)
                srv.did_change(F, buf)
            srv.wait_diagnostics(F, before, timeout=30)
            srv.document_symbol(F)
            srv.pump(0.3)
        else:
            before = srv.seq
            srv.did_open(F, buf)
            srv.wait_diagnostics(F, before, timeout=30)
        if not srv.wait_log("Workspace scan complete", timeout=60):
            ctx.violation({"kind": "scan-did-not-complete", "tag": tag}, {"stderr": srv.stderr_text()[-500:]})
            return
        order = observed_order(evlog, Freal)
        orders_seen.add((placement, order))
        got = symbols(srv, F)
        want = expected_symbols(buf)
        gw = ws_symbols(srv, rel)
        if got == want and gw != want:
            got = gw            # the document's own outline is right, the workspace-wide listing shows more / less for F
        ctx.judged()
        if got != want:
            # which uncoordinated scan analyses of F ran after / while the editor's: the parallel phase's visit reads the DISK
            # text; the later plugin / import phase re-analyses the CACHED text (an editor version), never the disk's
            how = scan_after_editor(evlog, Freal)
            allowed = expected_symbols(buf)
            if how["fresh"]:
                allowed = allowed + expected_symbols(disk)
            if placement == "burst" and (how["fresh"] or how["cached"]):
                allowed = allowed + expected_symbols(big)
            both = sorted(allowed)
            sub = all(got.count(x) <= both.count(x) for x in got)
            if order != "visit_first" and (how["fresh"] or how["cached"]) and sub and ctx.known(KF):
                ctx.nontrivial(tag + (order, "disk_content_present"))
            else:
                ctx.violation({"kind": "server-index-of-F-is-not-the-buffer", "tag": tag, "order": order},
                              {"got": got, "want": want}, files=files)
        else:
            ctx.nontrivial(tag + (order, "exact"))
        # one further change always restores the single-analysis state
        ftext = further if further_kind == "new_text" else disk
        before = srv.seq
        srv.did_change(F, ftext)
        if srv.wait_diagnostics(F, before, timeout=30) is None:
            ctx.count("change_without_publish")
        got = symbols(srv, F)
        want = expected_symbols(ftext)
        gw = ws_symbols(srv, rel)
        if got == want and gw != want:
            got = gw
        ctx.judged()
        bad_lens = refs_ok(ctx, srv, F, ftext, tag)
        if got != want or bad_lens is not None:
            ctx.violation({"kind": "server-further-change-does-not-restore", "tag": tag, "order": order},
                          {"got": got, "want": want, "lens_lines": bad_lens}, files=files)
        else:
            ctx.nontrivial(tag + (order, "restored"))
        ctx.count("server_runs")
    finally:
        srv.shutdown()
        shutil.rmtree(root, ignore_errors=True)
        shutil.rmtree(gate, ignore_errors=True)


def wait_file(srv, path, timeout=30):
    t0 = time.time()
    while not os.path.exists(path) and time.time() - t0 < timeout:
        srv.pump(0.02)
    if not os.path.exists(path):
        raise Inconclusive(f"failpoint file {os.path.basename(path)} did not appear")


def scan_after_editor(evlog, F):
    """{'fresh': a scan worker's from-disk analysis of F started after the editor's first one, 'cached': a scan thread's
    re-analysis (cleaning path, cached text) did}"""
    out = {"fresh": False, "cached": False}
    ev = []
    try:
        for i, line in enumerate(open(evlog)):
            parts = line.rstrip("\n").split("\t")
            if len(parts) >= 3 and parts[2] == F:
                ev.append((i, parts[0], parts[1]))
    except FileNotFoundError:
        return out
    editor_enter = [i for i, th, k in ev if th == "ThreadId(1)" and k.endswith("_enter")]
    if not editor_enter:
        return out
    t0 = min(editor_enter)
    for i, th, k in ev:
        if th != "ThreadId(1)" and i > t0:
            if k.startswith("analyze_fresh"):
                out["fresh"] = True
            elif k.startswith("analyze_"):
                out["cached"] = True
    # an analysis that started before the editor's and ended after it started also counts as interleaved
    for i, th, k in ev:
        if th != "ThreadId(1)" and i < t0 and k.endswith("_enter"):
            kind = "fresh" if k.startswith("analyze_fresh") else "cached"
            ends = [j for j, th2, k2 in ev if th2 == th and j > i and k2 == "analyze_exit"]
            if not ends or min(ends) > t0:
                out[kind] = True
    return out


def observed_order(evlog, F):
    """From the event log: did every analysis of F by a scan thread (the parallel phase's visit AND the later re-analysis of
    the plugin / import phase) finish before the editor's first analysis of F started ("visit_first"), or did a scan thread
    analyse F after or while the editor did ("open_first")?  The server handles notifications on its main thread."""
    ev = []
    try:
        for i, line in enumerate(open(evlog)):
            parts = line.rstrip("\n").split("\t")
            if len(parts) >= 3 and parts[2] == F:
                ev.append((i, parts[0], parts[1]))
    except FileNotFoundError:
        return "unknown"
    editor_enter = [i for i, th, k in ev if th == "ThreadId(1)" and k.endswith("_enter")]
    scan_any = [i for i, th, k in ev if th != "ThreadId(1)"]
    if not editor_enter or not scan_any:
        return "unknown"
    return "visit_first" if max(scan_any) < min(editor_enter) else "open_first"
