"""C04 — find-references is the exact inverse of go-to-definition.

Monitor: pure cross-path consistency on the implementation's own answers.
  (a) library level, after every analysis of an edit history (quiescent points): mirror invariant
      usage_by_fixture == inverse(usages); for every usage U and definition D:
      U in refs(D)  <=>  goto(U) == D; no usage listed twice; unresolved usages listed nowhere.
  (b) real server + CLI on generated workspaces: textDocument/references (from the definition's
      name and from usages), codeLens titles, callHierarchy/incomingCalls and `fixtures list`
      counts all equal the size of {U : definition(U) = D}.
"""
import os, re, shutil
from collections import Counter, defaultdict

from .. import gen, hist
from ..cli import run_cli, parse_tree
from ..common import Inconclusive
from ..lsp import LSP, uri_to_path
from ..runner import vh_bin, srv_bin, materialize
from ..vh import VH, strip_root


def word_at(text, line, col):
    lines = text.split("\n")
    if line - 1 >= len(lines):
        return None
    l = lines[line - 1]
    if col >= len(l) or not (l[col].isalnum() or l[col] == "_"):
        return None
    s = col
    while s > 0 and (l[s - 1].isalnum() or l[s - 1] == "_"):
        s -= 1
    e = col
    while e < len(l) and (l[e].isalnum() or l[e] == "_"):
        e += 1
    return l[s:e]


def check_pairs(ctx, snap, texts, where, root, files_for_replay):
    """texts: {abs path: current valid text or None}"""
    q = snap["queries"]
    if snap["invariants"]:
        ctx.violation({"kind": "mirror-invariant", "what": strip_root(snap["invariants"][:2], root), "where": where[-3:]},
                      {"violations": strip_root(snap["invariants"], root), "where": where}, files=files_for_replay)
    refs = {tuple(r["def"]): [tuple(u) for u in r["refs"]] for r in q["refs"]}
    n_multi = Counter(d[2] for d in refs)
    listed = defaultdict(list)
    for D, us in refs.items():
        c = Counter(us)
        for u, k in c.items():
            listed[u].append(D)
            if k > 1:
                ctx.violation({"kind": "usage-listed-twice", "usage": strip_root(list(u), root), "def": strip_root(list(D), root)},
                              {"where": where}, files=files_for_replay)
    for g in q["goto"]:
        U = tuple(g["usage"])
        T = tuple(g["target"]) if g["target"] else None
        txt = texts.get(U[0])
        if txt is None:
            ctx.count("skipped_usage_in_unparsable_doc")
            continue
        if word_at(txt, U[1], U[2]) != U[4]:
            ctx.count("dont_care_shared_span_usage")
            continue
        ctx.judged()
        Ds = listed.get(U, [])
        if T is None:
            if Ds:
                ctx.violation({"kind": "unresolved-usage-listed", "usage": strip_root(list(U), root)},
                              {"listed_under": strip_root(Ds, root), "where": where}, files=files_for_replay)
        else:
            if Ds != [T]:
                ctx.violation({"kind": "refs-not-inverse-of-goto", "usage": strip_root(list(U), root),
                               "goto": strip_root(list(T), root), "listed_under": strip_root([list(d) for d in Ds], root)},
                              {"where": where}, files=files_for_replay)
            if n_multi[U[4]] >= 2:
                ctx.nontrivial(("pair", U[4], len(Ds), min(n_multi[U[4]], 4), where[-1] if where else ""))
    # the CLI counter is a separate implementation of the same resolution: a project, non-autouse fixture is
    # reported unused  <=>  no usage resolves to any definition of that (file, name)
    by_fn = defaultdict(int)
    meta = {}
    for name, defs in snap["raw"]["definitions"].items():
        for d in defs:
            key = (d["file"], name)
            by_fn[key] += len(refs.get((d["file"], d["line"], name), []))
            m = meta.setdefault(key, {"tp": False, "auto": True})
            m["tp"] |= d["third_party"]
            m["auto"] &= d["autouse"]          # skipped only if EVERY definition of (file, name) is autouse
    # usages in currently unparsable documents still count (their last valid version is in effect)
    exp_unused = sorted([list(k) for k, n in by_fn.items() if n == 0 and not meta[k]["tp"] and not meta[k]["auto"]])
    got_unused = sorted({tuple(x) for x in q["unused"]})
    got_unused = [list(x) for x in got_unused]
    ctx.judged()
    if exp_unused != got_unused:
        only_cli = [x for x in got_unused if x not in exp_unused]
        only_refs = [x for x in exp_unused if x not in got_unused]
        # definitions of one (file, name) with mixed autouse flags are reported per definition by the CLI
        ctx.violation({"kind": "cli-unused-vs-references", "only_cli": strip_root(only_cli[:3], root),
                       "only_refs": strip_root(only_refs[:3], root), "where": where[-3:]},
                      {"where": where}, files=files_for_replay)
    return refs


def run(ctx):
    quick = ctx.tier == "quick"
    n_hist = 30 if quick else 1000
    n_lsp = 8 if quick else 150
    max_steps = 6 if quick else 20
    ctx.rule = ("generated workspaces x edit histories; every (definition, usage) pair judged after every analysis "
                "(library) and on the real server/CLI; distinct = pairs whose name has >= 2 definitions, by (name, "
                "listing multiplicity, #definitions, last operator) and per-feature count comparisons")
    vh = VH(vh_bin(), locklog=os.path.join(ctx.scratch_root, "lock_vh.log"))
    try:
        for h in range(n_hist):
            root = ctx.scratch(f"h{h}")
            ws = gen.gen_workspace(root, ctx.rng, depth=ctx.rng.randint(1, 3), venv=(h % 3 == 0))
            materialize(ws)
            db = vh.new_db()
            where = []
            if h % 3 == 1:
                # the editor opened one document (unchanged) before the scan reached it: the scan's visit replaces the
                # forward records of that file and has to replace the reverse ones too
                pys = sorted(rel for rel in ws.files if rel.endswith(".py") and os.path.basename(rel).startswith("test_"))
                if pys:
                    rel0 = ctx.rng.choice(pys)
                    vh.call(op="analyze", db=db, path=ws.abs(rel0), text=ws.files[rel0])
                    where.append("open_before_scan")
                    ctx.count("open_before_scan")
            r = vh.call(op="scan", db=db, root=root)
            if "panic" in r:
                raise Inconclusive(f"scan panicked: {r}")
            texts = {ws.abs(rel): t for rel, t in ws.files.items() if rel.endswith(".py")}
            steps = hist.gen_history(ws, ctx.rng, ctx.rng.randint(2, max_steps), parses=lambda t: vh.call(op="parses", text=t)["ok"])
            where.append("scan")
            snap = vh.call(op="snapshot", db=db)
            check_pairs(ctx, snap, texts, where, root, ws.files)
            for k, st in enumerate(steps):
                r = vh.call(op="analyze", db=db, path=ws.abs(st["rel"]), text=st["text"])
                if "panic" in r:
                    raise Inconclusive(f"analysis panicked: {r}")
                texts[ws.abs(st["rel"])] = st["text"] if st["valid"] else None
                where.append(st["op"])
                snap = vh.call(op="snapshot", db=db)
                check_pairs(ctx, snap, texts, where, root,
                            {"initial/" + r_: t for r_, t in ws.files.items()} |
                            {f"step{i:02d}_{s['op']}/{s['rel']}": s["text"] for i, s in enumerate(steps[:k + 1])})
            vh.call(op="drop_db", db=db)
            ctx.sample({"workspace": ws.spec, "history": [(s["op"], s["rel"]) for s in steps]})
            ctx.count("histories")
            shutil.rmtree(root, ignore_errors=True)
        for i in range(n_lsp):
            root = ctx.scratch(f"l{i}")
            ws = gen.gen_workspace(root, ctx.rng, depth=ctx.rng.randint(1, 3), venv=(i % 2 == 0))
            materialize(ws)
            lsp_and_cli(ctx, vh, ws)
            shutil.rmtree(root, ignore_errors=True)
    finally:
        vh.close()
    concurrent(ctx, 200 if quick else 20000)


def concurrent(ctx, per):
    """the two usage indexes (usages per file, read by go-to-definition / the CLI count; usage_by_fixture, read by
    references / lenses / incoming calls) are updated by concurrent analyses of different files: under seeded
    schedules at shard-lock granularity the final pair of indexes must be one a sequential order produces"""
    import itertools
    from .c09 import SCENARIOS
    from ..common import hash_str
    from ..vh import VHDied
    vh = VH(vh_bin(), locklog=os.path.join(ctx.scratch_root, "lock_vh2.log"), env={"VERIF_SHARDS": "2"})
    try:
        for name in ("usage_index_cleanup_vs_record", "two_removals_one_add", "reanalysis_same_content_pair"):
            setup, threads = SCENARIOS[name]
            allowed = set()
            for perm in itertools.permutations(range(len(threads))):
                r = vh.call(op="sched_scenario", setup=setup, threads=threads, seed=0, count=1, sequential=list(perm))
                allowed |= {o["index"] for o in r["outcomes"]}
            for mode, pct in (("uniform", None), ("pct2", 2)):
                try:
                    r = vh.call(op="sched_scenario", setup=setup, threads=threads, seed=ctx.seed * 7919 + hash_str(name) % 1000,
                                count=per, pct=pct, est=120, timeout=1200)
                except VHDied as e:
                    raise Inconclusive(f"harness died: {e}")
                if isinstance(r, dict) and r.get("sched_deadlock"):
                    # every thread of the scenario is blocked on a map lock held by another: no outcome at all
                    ctx.violation({"kind": "deadlock-under-scheduler", "where": "c04"}, {"detail": str(r.get("detail", ""))[:1500]})
                    break
                if "distinct_schedules" not in r:
                    raise Inconclusive(f"harness refused the scenario: {str(r)[:300]}")
                ctx.judged(per)
                for o in r["outcomes"]:
                    if o["index"] not in allowed or o["invariants"]:
                        ctx.violation({"kind": "usage-indexes-after-concurrent-analyses", "scenario": name, "mode": mode},
                                      {"first_seed": o["first_seed"], "count": o["count"], "invariants": o["invariants"][:4]})
                ctx.nontrivial(("concurrent", name, mode, r["distinct_schedules"] > 1))
                ctx.count("concurrent_schedules", per)
    finally:
        vh.close()


def lsp_and_cli(ctx, vh, ws):
    root = ws.root
    # the recorded usages / definitions (positions) come from the library on the same tree
    db = vh.new_db()
    vh.call(op="scan", db=db, root=root)
    raw = vh.call(op="raw", db=db)
    vh.call(op="drop_db", db=db)
    srv = LSP(srv_bin(), root, locklog=os.path.join(ctx.scratch_root, "lock_srv.log"))
    try:
        rec = srv.initialize()
        if not rec["answered"] or not any("scan complete" in l for l in srv.logs):
            raise Inconclusive("server did not finish its scan")
        texts = {ws.abs(rel): t for rel, t in ws.files.items() if rel.endswith(".py")}
        # R(D) = usages whose definition() answer is D
        R = defaultdict(list)
        for f, us in raw["usages"].items():
            if "/.venv/" in f:
                continue
            for u in us:
                if word_at(texts.get(f, ""), u["line"], u["start_char"]) != u["name"]:
                    continue
                r = srv.definition(f, u["line"] - 1, u["start_char"])
                if not r["answered"]:
                    raise Inconclusive("definition unanswered")
                res = r.get("result")
                if res:
                    D = (uri_to_path(res["uri"]), res["range"]["start"]["line"] + 1, u["name"])
                    R[D].append((f, u["line"], u["start_char"], u["end_char"]))
        cli_expected = Counter()
        model = ws.model()
        imported_names = set()
        for p_, m_ in model.models.items():
            if m_.ok and m_.imports:
                imported_names |= set(model.imported_into(p_))
        order_sensitive = set()
        for name, defs in raw["definitions"].items():
            if len(defs) >= 2 and (name in imported_names or sum(1 for d in defs if d["plugin"] or d["third_party"]) >= 2):
                order_sensitive.add(name)
        for name, defs in raw["definitions"].items():
            for d in defs:
                if d["third_party"] or "/.venv/" in d["file"]:
                    continue
                D = (d["file"], d["line"], name)
                exp_all = sorted(R.get(D, []))
                exp_locs = sorted([(d["file"], d["line"] - 1, 0, 0)] +
                                  [(f, l - 1, s, e) for (f, l, s, e) in exp_all if not (f == d["file"] and l == d["line"])])
                # references from the definition's name
                rr = srv.references(d["file"], d["line"] - 1, d["start_char"])
                if not rr["answered"]:
                    raise Inconclusive("references unanswered")
                got = sorted((uri_to_path(x["uri"]), x["range"]["start"]["line"], x["range"]["start"]["character"],
                              x["range"]["end"]["character"]) for x in (rr.get("result") or []))
                ctx.judged()
                if got != exp_locs:
                    ctx.violation({"kind": "references-from-definition", "def": strip_root(list(D), root)},
                                  {"expected": strip_root(exp_locs, root), "got": strip_root(got, root)}, files=ws.files)
                # references requested from a usage that resolves to D = references requested from D's name
                us = [u_ for u_ in exp_all if not (u_[0] == d["file"] and u_[1] == d["line"])][:2]
                for (uf, ul, us_, ue) in us:
                    r2 = srv.references(uf, ul - 1, us_)
                    got2 = sorted((uri_to_path(x["uri"]), x["range"]["start"]["line"], x["range"]["start"]["character"],
                                   x["range"]["end"]["character"]) for x in (r2.get("result") or []))
                    ctx.judged()
                    if got2 != got:
                        ctx.violation({"kind": "references-from-usage-differ-from-references-from-definition", "def": strip_root(list(D), root),
                                       "usage": strip_root([uf, ul, us_], root)},
                                      {"from_usage": strip_root(got2, root), "from_definition": strip_root(got, root)}, files=ws.files)
                # incoming calls
                pr = srv.prepare_call_hierarchy(d["file"], d["line"] - 1, d["start_char"])
                items = pr.get("result") or []
                if items:
                    inc = srv.incoming(items[0])
                    n_inc = len(inc.get("result") or [])
                    # the handler identifies the definition by (name, file): with several same-named
                    # definitions in one file it cannot tell them apart -> judge only unambiguous ones
                    same_file = [x for x in defs if x["file"] == d["file"]]
                    if len(same_file) == 1:
                        ctx.judged()
                        exp_inc = len([1 for (f, l, s, e) in exp_all if not (f == d["file"] and l == d["line"])])
                        if n_inc != exp_inc:
                            ctx.violation({"kind": "incoming-calls-count", "def": strip_root(list(D), root)},
                                          {"expected": exp_inc, "got": n_inc}, files=ws.files)
                cli_expected[(os.path.relpath(d["file"], root), name)] += len(exp_all)
                if len(defs) >= 2:
                    ctx.nontrivial(("lsp", name, len(exp_all) > 0, min(len(defs), 4)))
        # code lenses per file
        by_file = defaultdict(list)
        for name, defs in raw["definitions"].items():
            for d in defs:
                if not d["third_party"] and "/.venv/" not in d["file"]:
                    by_file[d["file"]].append((d["line"], name))
        for f, lst in by_file.items():
            cl = srv.code_lens(f)
            if not cl["answered"]:
                raise Inconclusive("codeLens unanswered")
            got = sorted((l["range"]["start"]["line"] + 1, l["command"]["title"]) for l in (cl.get("result") or []))
            exp = []
            for (line, name) in lst:
                n = len(R.get((f, line, name), []))
                exp.append((line, "1 usage" if n == 1 else f"{n} usages"))
            ctx.judged()
            if got != sorted(exp):
                ctx.violation({"kind": "code-lens-counts", "file": os.path.relpath(f, root)},
                              {"expected": sorted(exp), "got": got}, files=ws.files)
        # CLI counts
        rc, out, err = run_cli(srv_bin(), ["fixtures", "list", root])
        if rc != 0 or "panicked" in err:
            ctx.violation({"kind": "cli-list-failed"}, {"rc": rc, "stderr": err[-400:]}, files=ws.files)
        else:
            tree, _files = parse_tree(out)
            for key, n in cli_expected.items():
                if key[1] in order_sensitive:
                    # which same-named definition wins depends on per-process registration order here
                    # (known findings of C01/C08); the CLI is a different process than the server
                    ctx.count("cli_counts_skipped_order_sensitive")
                    continue
                ctx.judged()
                got = tree.get(key)
                if got is None or got["count"] != n:
                    ctx.violation({"kind": "cli-count", "fixture": list(key)},
                                  {"expected_refs": n, "cli": got, "tree_keys": sorted(map(str, tree))[:20]}, files=ws.files)
        ctx.count("lsp_workspaces")
    finally:
        srv.shutdown()
