"""C06 — index state depends on current contents only, not on edit history.

Monitor: twin execution at every prefix of generated edit histories.
  A  = long-lived database that received the whole history (no queries in between)
  B  = same-order twin: same initial analyses, then only the *latest valid* text of every edited
       file, in order of last successful analysis (registration order coincides by construction)
       -> complete snapshot (ordered raw maps + every query) must be equal
  C  = cold twin: fresh database analysing the latest valid contents only
       -> raw maps compared as multisets; undeclared findings of the document changed last
"""
import os, shutil

from .. import gen, hist
from ..common import Inconclusive
from ..runner import vh_bin, materialize
from ..twins import raw_multiset, raw_ordered, diff, brief, norm_queries
from ..vh import VH, strip_root
from ..pymodel import FileModel


KF_INVALID_IMPORTS = "KF-C06-unparsable-file-loses-reexports"


def apply_initial(vh, db, ws, order):
    cmds = [{"op": "analyze_fresh", "db": db, "path": ws.abs(r), "text": ws.files[r]} for r in order]
    res = vh.call(op="batch", cmds=cmds)["results"]
    for r in res:
        if "panic" in r or "error" in r:
            raise Inconclusive(f"initial analysis failed: {r}")


def one_history(ctx, vh, ws, steps, quick):
    root = ws.root
    order = sorted(ws.workspace_py())
    A = vh.new_db()
    apply_initial(vh, A, ws, order)
    AQ = vh.new_db()            # realistic long-lived server: queried at every prefix
    apply_initial(vh, AQ, ws, order)
    latest_valid = {}
    current = {}
    last_ok_order = []
    prev_op = "init"
    prev_sig = None
    for k, st in enumerate(steps):
        f = ws.abs(st["rel"])
        r = vh.call(op="analyze", db=A, path=f, text=st["text"])
        vh.call(op="analyze", db=AQ, path=f, text=st["text"])
        if "panic" in r:
            raise Inconclusive(f"analysis panicked (C11 territory): {r}")
        current[st["rel"]] = st["text"]
        if st["valid"]:
            latest_valid[st["rel"]] = st["text"]
            if st["rel"] in last_ok_order:
                last_ok_order.remove(st["rel"])
            last_ok_order.append(st["rel"])
        if quick and k % 2 == 1 and k != len(steps) - 1:
            prev_op = st["op"]
            continue
        # ---- twin B: fresh database on the latest *valid* content only --------------------
        B = vh.new_db()
        apply_initial(vh, B, ws, order)
        cmds = [{"op": "analyze", "db": B, "path": ws.abs(rel), "text": latest_valid[rel]} for rel in last_ok_order]
        if cmds:
            vh.call(op="batch", cmds=cmds)
        sa = vh.call(op="snapshot", db=A)
        sb = vh.call(op="snapshot", db=B)
        invalid_now = {ws.abs(rel) for rel, txt in current.items() if latest_valid.get(rel) != txt}
        # B2: additionally receives the currently unparsable texts (used only to attribute the known finding)
        sb2 = None
        if invalid_now:
            B2 = vh.new_db()
            apply_initial(vh, B2, ws, order)
            cmds2 = list(cmds) and [dict(c, db=B2) for c in cmds]
            for rel, txt in current.items():
                if latest_valid.get(rel) != txt:
                    cmds2.append({"op": "analyze", "db": B2, "path": ws.abs(rel), "text": txt})
            vh.call(op="batch", cmds=cmds2)
            sb2 = vh.call(op="snapshot", db=B2)
            vh.call(op="drop_db", db=B2)
        ctx.judged()
        if sa["invariants"]:
            ctx.violation({"kind": "mirror-invariant", "what": sa["invariants"][:3]},
                          {"history": [(s["op"], s["rel"]) for s in steps[:k + 1]]},
                          files=hist_files(ws, steps[:k + 1]))

        def compare(snap, kind):
            ra, rb = raw_ordered(snap["raw"]), raw_ordered(sb["raw"])
            ra.pop("file_cache", None); rb.pop("file_cache", None)
            dd = diff({"raw": ra}, {"raw": rb})
            last_doc = f if st["valid"] else None
            qa = filter_queries(snap["queries"], invalid_now, last_doc)
            qb = filter_queries(sb["queries"], invalid_now, last_doc)
            dq = diff({"queries": qa}, {"queries": qb})
            if dq and not dd and sb2 is not None:
                # known finding: re-exports of a currently unparsable file vanish for everybody
                q2 = filter_queries(sb2["queries"], invalid_now, last_doc)
                has_imports = any(FileModel(latest_valid.get(rel, ws.files[rel])).imports
                                  for rel, txt in current.items() if latest_valid.get(rel) != txt)
                if not diff({"queries": qa}, {"queries": q2}) and has_imports and ctx.known(KF_INVALID_IMPORTS):
                    dq = []
            dd = dd + dq
            if dd:
                ctx.violation({"kind": kind, "first_diff": strip_root(dd[0][0], root),
                               "ops": [s["op"] for s in steps[:k + 1]][-3:]},
                              {"diffs": [(strip_root(p, root), brief(strip_root(x, root)), brief(strip_root(y, root))) for p, x, y in dd[:5]],
                               "history": [(s["op"], s["rel"]) for s in steps[:k + 1]]},
                              files=hist_files(ws, steps[:k + 1]))
        compare(sa, "history-vs-fresh-twin")
        sq = vh.call(op="snapshot", db=AQ)
        ctx.judged()
        compare(sq, "history-with-queries-vs-fresh-twin")
        # ---- twin C (cold) -----------------------------------------------------
        C = vh.new_db()
        last_rel = st["rel"]
        seq = [r_ for r_ in order if r_ != last_rel] + [last_rel]
        cmds = []
        for rel in seq:
            txt = latest_valid.get(rel, ws.files[rel])
            cmds.append({"op": "analyze", "db": C, "path": ws.abs(rel), "text": txt})
            cur = current.get(rel)
            if cur is not None and cur != txt:
                cmds.append({"op": "analyze", "db": C, "path": ws.abs(rel), "text": cur})
        vh.call(op="batch", cmds=cmds)
        rc = vh.call(op="raw", db=C)
        ctx.judged()
        ma, mc = raw_multiset(sa["raw"]), raw_multiset(rc)
        dd = diff(ma, mc)
        ctx.count("prefixes_with_unparsable_doc", 1 if invalid_now else 0)
        if dd:
            ctx.violation({"kind": "history-vs-cold-twin", "first_diff": strip_root(dd[0][0], root),
                           "ops": [s["op"] for s in steps[:k + 1]][-3:]},
                          {"diffs": [(strip_root(p, root), brief(strip_root(x, root)), brief(strip_root(y, root))) for p, x, y in dd[:5]],
                           "history": [(s["op"], s["rel"]) for s in steps[:k + 1]]},
                          files=hist_files(ws, steps[:k + 1]))
        if st["valid"]:
            ua = sa["raw"]["undeclared"].get(f, [])
            uc = rc["undeclared"].get(f, [])
            ctx.judged()
            if sorted(map(str, ua)) != sorted(map(str, uc)):
                ctx.violation({"kind": "undeclared-of-last-changed-doc", "file": st["rel"],
                               "ops": [s["op"] for s in steps[:k + 1]][-3:]},
                              {"history_db": ua, "fresh_db": uc,
                               "history": [(s["op"], s["rel"]) for s in steps[:k + 1]]},
                              files=hist_files(ws, steps[:k + 1]))
        sig = hash(str(ma["definitions"]) + str(ma["usages"]))
        if sig != prev_sig:
            ctx.nontrivial((prev_op, st["op"]))
        prev_sig = sig
        prev_op = st["op"]
        for d_ in (B, C):
            vh.call(op="drop_db", db=d_)
        # keep A free of earlier queries: rebuild it by replaying the history so far
        vh.call(op="drop_db", db=A)
        A = vh.new_db()
        apply_initial(vh, A, ws, order)
        vh.call(op="batch", cmds=[{"op": "analyze", "db": A, "path": ws.abs(s["rel"]), "text": s["text"]}
                                 for s in steps[:k + 1]])
    vh.call(op="drop_db", db=A)
    vh.call(op="drop_db", db=AQ)


def run(ctx):
    quick = ctx.tier == "quick"
    n_hist = 40 if quick else 1500
    max_steps = 10 if quick else 30
    ctx.rule = ("edit histories over generated workspaces (add/remove/rename/move fixtures and usages, imports-only "
                "edits, delete all fixtures, break/repair syntax, resend); judged at every prefix against a same-order "
                "twin (full snapshot) and a cold twin (raw maps as multisets); distinct = (operator before, operator "
                "after) transitions that changed the index")
    vh = VH(vh_bin(), locklog=os.path.join(ctx.scratch_root, "lock_vh.log"))
    try:
        pinned(ctx, vh)
        if os.environ.get("VERIF_ONLY_PINNED"):
            return
        for h in range(n_hist):
            root = ctx.scratch(f"h{h}")
            ws = gen.gen_workspace(root, ctx.rng, depth=ctx.rng.randint(1, 2), venv=False)
            materialize(ws)
            order = sorted(ws.workspace_py())
            if h % 8 == 7:
                steps = hist.directed_resend(ws, ctx.rng)
            else:
                steps = hist.gen_history(ws, ctx.rng, ctx.rng.randint(3, max_steps), parses=lambda t: vh.call(op="parses", text=t)["ok"])
            if not steps:
                continue
            one_history(ctx, vh, ws, steps, quick)
            if h < (6 if quick else 100):
                lroot = ctx.scratch(f"l{h}")
                lws = gen.gen_workspace(lroot, ctx.rng, depth=ctx.rng.randint(1, 2), venv=False, allow_imports=False)
                materialize(lws)
                lsteps = hist.directed_resend(lws, ctx.rng) if h % 2 == 1 else \
                    hist.gen_history(lws, ctx.rng, ctx.rng.randint(3, max_steps), parses=lambda t: vh.call(op="parses", text=t)["ok"])
                if lsteps:
                    # (the back-to-back burst re-analyses the last document, which would heal a stale state left by the
                    # history itself: only every other generated history ends with one, the directed ones never)
                    lsp_history(ctx, lws, lsteps, burst=(h % 4 == 0))
                shutil.rmtree(lroot, ignore_errors=True)
            if h == 0:
                # directed: a document that ends with no fixture usage and no finding at all (nothing is left to publish but the
                # retraction of what was published before)
                droot = ctx.scratch("lplain")
                dws = gen.gen_workspace(droot, ctx.rng, depth=1, venv=False, allow_imports=False)
                materialize(dws)
                probe = sorted(r_ for r_ in dws.workspace_py() if r_.endswith("test_probe.py"))[0]
                vis_ = sorted(n_ for n_ in dws.model().visible_names(dws.abs(probe)) if n_.startswith("fx_"))
                nm = vis_[0] if vis_ else (dws.spec["names"][0] if dws.spec.get("names") else "fx_a")
                dsteps = [{"op": "only_undeclared", "rel": probe, "text": f"def test_only_body():\n    v = {nm}\n    return {nm}.x\n", "valid": True},
                          {"op": "plain_file", "rel": probe, "text": "def test_plain():\n    pass\n", "valid": True}]
                lsp_history(ctx, dws, dsteps)
                shutil.rmtree(droot, ignore_errors=True)
            ctx.sample({"workspace": ws.spec, "history": [(s["op"], s["rel"], s["valid"]) for s in steps]})
            ctx.count("histories")
            ctx.count("steps", len(steps))
            shutil.rmtree(root, ignore_errors=True)
    finally:
        vh.close()


def lsp_observe(srv, ws, docs, model_files):
    """answers of a server about the given documents: symbols, lenses, definition of every usage, last diagnostics"""
    from ..pymodel import FileModel
    from ..lsp import uri_to_path, path_to_uri
    obs = {}
    for rel in sorted(docs):
        f = ws.abs(rel)
        sym = srv.document_symbol(f)
        lens = srv.code_lens(f)
        if not (sym["answered"] and lens["answered"]):
            raise Inconclusive("server stopped answering: " + srv.stderr_text()[-300:])
        obs[rel + "#symbols"] = sorted((s["name"], s["selectionRange"]["start"]["line"]) for s in (sym.get("result") or []))
        obs[rel + "#lens"] = sorted((l["range"]["start"]["line"], l["command"]["title"]) for l in (lens.get("result") or []))
        m = FileModel(model_files[rel])
        if m.ok:
            gt = []
            for u in m.usages:
                r = srv.definition(f, u["line"] - 1, u["start_b"])
                if not r["answered"]:
                    raise Inconclusive("server stopped answering")
                res = r.get("result")
                gt.append((u["name"], u["line"], os.path.relpath(uri_to_path(res["uri"]), ws.root) if res else None,
                           res["range"]["start"]["line"] if res else None))
            obs[rel + "#goto"] = sorted(gt, key=str)
        dl = srv.diag.get(path_to_uri(f), [])
        last = dl[-1][1] if dl else None
        obs[rel + "#diag"] = sorted((d["code"], d["range"]["start"]["line"], d["range"]["start"]["character"], d["message"])
                                    for d in (last or []) if d.get("code") != "circular-dependency") if last is not None else None
    return obs


def lsp_history(ctx, ws, steps, burst=False):
    """the same comparison through the real server: history server vs fresh server opening only the latest texts"""
    from ..lsp import LSP
    from ..runner import srv_bin
    latest_valid, current, last_ok = {}, {}, []
    A = LSP(srv_bin(), ws.root, locklog=os.path.join(ctx.scratch_root, "lock_srv.log"))
    B = None
    try:
        A.initialize()
        opened = set()
        for st in steps:
            f = ws.abs(st["rel"])
            before = A.seq
            if st["rel"] in opened:
                A.did_change(f, st["text"])
            else:
                A.did_open(f, st["text"])
                opened.add(st["rel"])
            if A.wait_diagnostics(f, before, timeout=6) is None:
                ctx.count('change_without_publish')
            current[st["rel"]] = st["text"]
            if st["valid"]:
                latest_valid[st["rel"]] = st["text"]
                if st["rel"] in last_ok:
                    last_ok.remove(st["rel"])
                last_ok.append(st["rel"])
        # two more versions of the last document back to back (a large paste, then back to the text): only the last counts
        if burst and steps and steps[-1]["valid"] and steps[-1]["rel"] in opened:
            rel_ = steps[-1]["rel"]
            f_ = ws.abs(rel_)
            big = steps[-1]["text"] + "\n\nimport pytest\n" + "".join(
                f"\n@pytest.fixture\ndef pasted_fx_{i}():\n    return {i}\n" for i in range(3000))
            with A.batch():
                A.did_change(f_, big)
                A.did_change(f_, steps[-1]["text"])
            A.document_symbol(f_)
            A.pump(0.5)
            ctx.count("lsp_bursts")
        B = LSP(srv_bin(), ws.root)
        B.initialize()
        for rel in last_ok:
            before = B.seq
            B.did_open(ws.abs(rel), latest_valid[rel])
            B.wait_diagnostics(ws.abs(rel), before, timeout=6)
        for rel, txt in current.items():
            if latest_valid.get(rel) != txt:
                before = B.seq
                if rel in last_ok:
                    B.did_change(ws.abs(rel), txt)
                else:
                    B.did_open(ws.abs(rel), txt)
                B.wait_diagnostics(ws.abs(rel), before, timeout=6)
        docs = [rel for rel in current if latest_valid.get(rel, None) == current[rel]]
        texts = {rel: current[rel] for rel in docs}
        # the document changed last must also have been analysed last in B: re-send it
        if steps and steps[-1]["valid"] and steps[-1]["rel"] in docs:
            rel = steps[-1]["rel"]
            before = B.seq
            B.did_change(ws.abs(rel), current[rel])
            B.wait_diagnostics(ws.abs(rel), before, timeout=6)
            docs_diag = {rel}
        else:
            docs_diag = set()
        oa = lsp_observe(A, ws, docs, texts)
        ob = lsp_observe(B, ws, docs, texts)
        for k in list(oa):
            if k.endswith("#diag") and k[:-5] not in docs_diag:
                oa.pop(k); ob.pop(k, None)
        ctx.judged()
        ctx.count("lsp_histories")
        dd = diff(oa, ob)
        if dd:
            ctx.violation({"kind": "lsp-history-vs-fresh-server", "first_diff": dd[0][0], "ops": [s["op"] for s in steps][-3:]},
                          {"diffs": [(p, brief(x), brief(y)) for p, x, y in dd[:5]],
                           "history": [(s["op"], s["rel"]) for s in steps]}, files=hist_files(ws, steps))
    finally:
        A.shutdown()
        if B:
            B.shutdown()


def filter_queries(q, invalid_files, last_doc=None):
    """positions inside a currently-unparsable document are stale by definition: drop answers about it.
    Undeclared-fixture findings are stored per document at ITS last analysis (they depend on what the other files
    contained at that moment), and the property pins them only for the document changed last."""
    q = norm_queries(q)
    q["undeclared"] = {f: v for f, v in q["undeclared"].items() if f == last_doc and f not in invalid_files}
    if not invalid_files:
        return q
    q["goto"] = [g for g in q["goto"] if g["usage"][0] not in invalid_files]
    return q


def hist_files(ws, steps):
    out = {"initial/" + r: t for r, t in ws.files.items()}
    for i, s in enumerate(steps):
        out[f"step{i:02d}_{s['op']}/{s['rel']}"] = s["text"]
    return out


def pinned(ctx, vh):
    """pinned witnesses of the listed known findings, judged by the same code as the generated histories"""
    from ..witness import WITNESS, ws_from_witness
    for kf_id in (KF_INVALID_IMPORTS,):
        w = WITNESS[kf_id]
        ws = ws_from_witness(ctx, w)
        one_history(ctx, vh, ws, w["steps"], quick=False)
        shutil.rmtree(ws.root, ignore_errors=True)
        # directed: import-only edits of a conftest that defines nothing itself (re-export only)
        ws = ws_from_witness(ctx, w, name="reexport")
        c0 = ws.files["conftest.py"]
        steps = [{"op": "imports_only_remove", "rel": "conftest.py", "text": "\n", "valid": True},
                 {"op": "resend", "rel": "test_probe.py", "text": ws.files["test_probe.py"], "valid": True},
                 {"op": "imports_only_add", "rel": "conftest.py", "text": c0, "valid": True},
                 {"op": "imports_only_remove", "rel": "conftest.py", "text": "import os\n", "valid": True},
                 {"op": "imports_only_add", "rel": "conftest.py", "text": "from fxm import *\n", "valid": True}]
        one_history(ctx, vh, ws, steps, quick=False)
        shutil.rmtree(ws.root, ignore_errors=True)
