"""C13 — discovery covers exactly pytest's files, wherever the workspace lives.

Monitor: reference-model monitor + relocation twins.  Generated directory trees (file names near the
three patterns, ignored directory names and near-misses at any depth, exclude patterns in pyproject.toml,
modules pulled in by imports, broken files) are scanned by the real scanner; the set of indexed files is
compared with an independent walk, the root-relative snapshot is compared across absolute locations of the
root (ancestors / root named like ignored directories or containing 'site-packages'), and against the same
tree without the broken files.  Also through the CLI binary.
"""
import json, os, re, shutil

from ..cli import run_cli, parse_tree
from ..common import Inconclusive, write_tree
from ..runner import vh_bin, srv_bin
from ..twins import raw_multiset, norm_queries, diff, brief
from ..vh import VH, strip_root

IGNORED = [".git", ".hg", ".svn", ".venv", "venv", "env", ".env", "__pycache__", ".pytest_cache", ".mypy_cache", ".ruff_cache",
           ".tox", ".nox", "build", "dist", ".eggs", "node_modules", "bower_components", "target", ".idea", ".vscode",
           ".cache", ".local", "vendor", "site-packages", "pkg.egg-info", "a-b.c.egg-info", ".egg-info"]
NEAR = ["builds", "env2", "envs", ".gitx", "Build", "my_venv", "distx", "targets", "egg-info", "notes.EGG-INFO", "vendored",
        "site_packages", "x.egg-infos", "node-modules", "normal", "src", "tests"]
FILES_YES = ["conftest.py", "test_a.py", "b_test.py", "test_.py", "_test.py", "test_with.dots.py", "test_é.py", "x_test.py"]
FILES_NO = ["testx.py", "tests.py", "conftest.pyi", "test_x.txt", "Test_x.py", "test_x.pyc", "xtest.py", "contest.py", "conftest_.py",
            "test_x.py.bak", "my_tests.py", "x_test.pyx"]
ROOTS = ["plain/ws", "build/proj", "env/x", "site-packages/p", "my.egg-info/p", "generated/ws", "deep/dist/vendor/target/ws", "build",
         "node_modules/.venv/ws"]


def fx_name(rel):
    return "fx_" + re.sub(r"[^a-zA-Z0-9]", "_", rel)


def body(rel, extra_import=None):
    n = fx_name(rel)
    imp = (extra_import + "\n") if extra_import else ""
    return (f"{imp}import pytest\n\n@pytest.fixture\ndef {n}():\n    return 1\n\ndef _impl_{n}():\n    return 2\n\n"
            f"asg_{n} = pytest.fixture()(_impl_{n})\n\ndef test_uses_{n}({n}, asg_{n}):\n    pass\n")


def gen_tree(rng):
    """returns (files {rel: text|bytes}, dirs_only [rel], excludes [patterns], expected set of rel, broken {rel: kind})"""
    files = {}
    dirs = [""]
    for _ in range(rng.randint(3, 8)):
        parent = rng.choice(dirs)
        name = rng.choice(IGNORED if rng.random() < 0.45 else NEAR)
        d = os.path.join(parent, name) if parent else name
        if d not in dirs:
            dirs.append(d)
    helper_mods = []
    for d in dirs:
        for _ in range(rng.randint(1, 3)):
            fn = rng.choice(FILES_YES if rng.random() < 0.6 else FILES_NO)
            rel = os.path.join(d, fn) if d else fn
            files[rel] = body(rel)
    # modules pulled in by imports (conftest / test files), transitively
    for d in rng.sample(dirs, min(len(dirs), 2)):
        cf = os.path.join(d, "conftest.py") if d else "conftest.py"
        m1 = os.path.join(d, "helper_mod.py") if d else "helper_mod.py"
        m2 = os.path.join(d, "helper_deep.py") if d else "helper_deep.py"
        extra = [f"helper_x{j}" for j in range(rng.randint(0, 4))]
        # local modules may carry the names of standard-library modules: relative imports still mean the local file
        extra += rng.sample(["types", "random", "platform", "signal", "string", "json"], rng.randint(0, 2))
        bad = rng.random() < 0.5
        names = ["helper_mod"] + extra + (["helper_badbytes"] if bad else [])
        rng.shuffle(names)
        files[cf] = body(cf, "\n".join(f"from .{n_} import *" for n_ in names))
        files[m1] = body(m1, "from .helper_deep import *")
        files[m2] = body(m2)
        for n_ in extra:
            r_ = os.path.join(d, n_ + ".py") if d else n_ + ".py"
            files[r_] = body(r_)
        helper_mods.append((cf, m1, m2, os.path.join(d, "helper_badbytes.py") if bad else None))
        parts_ = d.split("/") if d else []
        if len(parts_) >= 2 and rng.random() < 0.7:
            # a module two packages up, reached with three leading dots
            up = "/".join(parts_[:-2])
            um = os.path.join(up, "helper_two_up.py") if up else "helper_two_up.py"
            files[um] = body(um)
            files[cf] = "from ...helper_two_up import *\n" + files[cf]
    # directed (in every tree): a module reachable only from a suffix-named test file (*_test.py); a plugin module named only
    # by a literal pytest_plugins that a later non-literal assignment replaces (nothing declared: not pulled in); the
    # reverse order (the literal wins: pulled in); a plain assignment replaced by an annotated one
    files["zz_suffix/only_test.py"] = body("zz_suffix/only_test.py", "from .suffix_helper import *")
    files["zz_suffix/suffix_helper.py"] = body("zz_suffix/suffix_helper.py")
    files["zz_plug/conftest.py"] = body("zz_plug/conftest.py", 'pytest_plugins = ["zz_plug.stale_mod"]\npytest_plugins = sorted(_PLUGINS)')
    files["zz_plug/stale_mod.py"] = body("zz_plug/stale_mod.py")
    files["zz_plug2/conftest.py"] = body("zz_plug2/conftest.py", 'pytest_plugins = sorted(_PLUGINS)\npytest_plugins = ["zz_plug2.live_mod"]')
    files["zz_plug2/live_mod.py"] = body("zz_plug2/live_mod.py")
    files["zz_plug3/conftest.py"] = body("zz_plug3/conftest.py", 'pytest_plugins = ["zz_plug3.old_mod"]\npytest_plugins: list = ["zz_plug3.new_mod"]')
    files["zz_plug3/old_mod.py"] = body("zz_plug3/old_mod.py")
    files["zz_plug3/new_mod.py"] = body("zz_plug3/new_mod.py")
    # excludes (forms whose meaning is unambiguous for root-relative paths)
    excludes = []
    tops = sorted({r.split("/")[0] for r in files if "/" in r})
    if tops and rng.random() < 0.7:
        t = rng.choice(tops)
        excludes.append(f"{t}/**")
    if rng.random() < 0.5:
        excludes.append("**/generated/**")
        files["generated/test_gen.py"] = body("generated/test_gen.py")
        files["sub/generated/deep/test_gen2.py"] = body("sub/generated/deep/test_gen2.py")
    if rng.random() < 0.4:
        excludes.append("legacy_*")
        files["legacy_old/test_old.py"] = body("legacy_old/test_old.py")
        files["legacy_test.py"] = body("legacy_test.py")
        files["sub/legacy_keep/test_k.py"] = body("sub/legacy_keep/test_k.py")
    if rng.random() < 0.3:
        victim = rng.choice(sorted(files))
        excludes.append(victim)
    if rng.random() < 0.3:
        excludes.append("[")            # invalid pattern: ignored individually
    if excludes:
        files["pyproject.toml"] = "[tool.pytest-language-server]\nexclude = " + json.dumps(excludes) + "\n"
    return files, dirs, excludes, helper_mods


def glob_match(pat, rel):
    """glob crate default options on a root-relative path: '*' and '?' may match '/', '**' whole components"""
    rx = ""
    i = 0
    while i < len(pat):
        if pat.startswith("**/", i):
            rx += "(?:.*/)?"
            i += 3
        elif pat.startswith("/**", i) and i + 3 == len(pat):
            rx += "/.*"
            i += 3
        elif pat[i] == "*":
            rx += ".*"
            i += 1
        elif pat[i] == "?":
            rx += "."
            i += 1
        else:
            rx += re.escape(pat[i])
            i += 1
    return re.fullmatch(rx, rel) is not None


def ignored_component(name):
    return name in IGNORED[:IGNORED.index("pkg.egg-info")] or name.endswith(".egg-info")


def expected_indexed(files, excludes, broken):
    valid_patterns = [p for p in excludes if p != "["]
    exp = set()
    for rel in files:
        if rel in broken:
            continue
        parts = rel.split("/")
        fn = parts[-1]
        if not (fn == "conftest.py" or (fn.startswith("test_") and fn.endswith(".py")) or fn.endswith("_test.py")):
            continue
        if any(ignored_component(c) for c in parts[:-1]):
            continue
        if any(glob_match(p, rel) for p in valid_patterns):
            continue
        exp.add(rel)
    # import closure: modules pulled in by indexed files (star imports of sibling modules)
    changed = True
    while changed:
        changed = False
        for rel in list(exp):
            t = files[rel]
            if isinstance(t, bytes):
                continue
            for dots, m in re.findall(r"^from (\.+)(\w+) import \*", t, re.M):
                base_ = os.path.dirname(rel)
                for _ in range(len(dots) - 1):
                    base_ = os.path.dirname(base_)
                cand = os.path.join(base_, m + ".py")
                if cand in files and cand not in exp and cand not in broken:
                    exp.add(cand)
                    changed = True
            # pytest_plugins: the last module-level assignment wins; only a literal list declares modules (root-relative
            # dotted names are the only ones the generator writes)
            last = None
            for m_ in re.finditer(r"^pytest_plugins(?::[^=\n]*)? = (.*)$", t, re.M):
                last = m_.group(1)
            if last and last.startswith("["):
                for dotted in re.findall(r'"([\w.]+)"', last):
                    cand = dotted.replace(".", "/") + ".py"
                    if cand in files and cand not in exp and cand not in broken:
                        exp.add(cand)
                        changed = True
    return exp


def materialise(base, root_rel, files, broken_kinds):
    root = os.path.join(base, root_rel)
    os.makedirs(root, exist_ok=True)
    write_tree(root, {k: v for k, v in files.items()})
    for rel, kind in broken_kinds.items():
        p = os.path.join(root, rel)
        os.makedirs(os.path.dirname(p), exist_ok=True)
        if kind == "non_utf8":
            open(p, "wb").write(b"def test_x():\n    s = '\xff\xfe\x80'\n")
        elif kind == "dir":
            os.makedirs(p, exist_ok=True)
            open(os.path.join(p, "inner.txt"), "w").write("x")
        elif kind == "dangling":
            if not os.path.lexists(p):
                os.symlink("/nonexistent/nowhere.py", p)
        elif kind == "loop":
            if not os.path.lexists(p):
                os.symlink(os.path.dirname(p) or ".", p)
        elif kind == "syntax":
            open(p, "w").write("def test_broken(:\n")
    return os.path.realpath(root)


def scan_snapshot(vh, root, only=None, given=None):
    """root: canonical path (index keys are canonical); given: the spelling handed to the scanner (default: canonical)"""
    db = vh.new_db()
    r = vh.call(op="scan_config", db=db, root=given or root, timeout=120)
    if "panic" in r:
        vh.call(op="drop_db", db=db)
        return None, r
    raw = vh.call(op="raw", db=db)
    q = norm_queries(vh.call(op="queries", db=db, files=[os.path.join(root, r_) for r_ in sorted(only)]) if only is not None
                     else vh.call(op="queries", db=db))
    vh.call(op="drop_db", db=db)
    indexed = sorted(os.path.relpath(f, root) for f in set(raw["file_definitions"]) | set(raw["usages"]))
    snap = {"raw": raw_multiset(strip_root(raw, root)), "queries": strip_root(q, root)}
    snap["raw"].pop("file_cache", None)
    return {"indexed": indexed, "snap": snap, "cfg": r}, None


def run(ctx):
    quick = ctx.tier == "quick"
    n = 25 if quick else 1200
    ctx.rule = ("generated trees (names near conftest.py/test_*.py/*_test.py, ignored names and near-misses at any depth, "
                "exclude patterns, import-pulled modules, broken files) x absolute locations of the root; indexed set vs "
                "independent walk, root-relative snapshot across locations, with/without broken files, CLI; distinct = "
                "(ignored/near names used, exclude forms, location, broken kinds)")
    vh = VH(vh_bin(), locklog=os.path.join(ctx.scratch_root, "lock_vh.log"))
    try:
        for i in range(n):
            base = ctx.scratch(f"t{i}")
            files, dirs, excludes, helpers = gen_tree(ctx.rng)
            # always present: a conftest three packages deep that star-imports a module two packages up (three leading dots)
            files["dpk/__init__.py"] = ""
            files["dpk/sub/inner/conftest.py"] = body("dpk/sub/inner/conftest.py", "from ...helper_three_dots import *")
            files["dpk/helper_three_dots.py"] = body("dpk/helper_three_dots.py")
            if i == 0 and "**/generated/**" not in excludes:
                # the first tree always carries the '**/generated/**' pattern and is also placed under a directory of that name
                excludes.append("**/generated/**")
                files["generated/test_gen.py"] = body("generated/test_gen.py")
                files["sub/generated/deep/test_gen2.py"] = body("sub/generated/deep/test_gen2.py")
                files["pyproject.toml"] = "[tool.pytest-language-server]\nexclude = " + json.dumps(excludes) + "\n"
            broken = {}
            if ctx.rng.random() < 0.7:
                d = ctx.rng.choice(dirs)
                kinds = ctx.rng.sample(["non_utf8", "dir", "dangling", "loop", "syntax"], ctx.rng.randint(1, 3))
                for kk in kinds:
                    nm = {"non_utf8": "test_bad_bytes.py", "dir": "test_is_dir.py", "dangling": "test_dangling.py",
                          "loop": "loop_link", "syntax": "test_syntax_error.py"}[kk]
                    broken[os.path.join(d, nm) if d else nm] = kk
            for h_ in helpers:
                if h_[3]:
                    broken[h_[3]] = "non_utf8"        # one of several modules a conftest imports is not UTF-8
            exp = expected_indexed(files, excludes, broken)
            locs = ["plain/ws"] + ctx.rng.sample(ROOTS[1:], 2 if quick else 5)
            if i == 0 and "generated/ws" not in locs:
                locs[-1] = "generated/ws"
            base_snap = None
            for li, loc in enumerate(locs):
                root = materialise(os.path.join(base, f"L{li}"), loc, files, broken)
                given = None
                spell = ctx.rng.choice(["canonical", "canonical", "symlink", "dotdot"]) if li > 0 else "canonical"
                if i == 0 and loc == "generated/ws":
                    spell = "canonical"       # (the directory name must be part of the path the scanner walks)
                if spell == "symlink":
                    # the editor's root is a link that lives under a directory with an ignored name
                    ld = os.path.join(base, f"L{li}", "links", ctx.rng.choice(["build", "venv", "dist", "plainlinks"]))
                    os.makedirs(ld, exist_ok=True)
                    given = os.path.join(ld, "ws_link")
                    os.symlink(root, given)
                elif spell == "dotdot":
                    side = os.path.join(os.path.dirname(root), ctx.rng.choice(["target", "env", "side"]))
                    os.makedirs(side, exist_ok=True)
                    given = os.path.join(side, "..", os.path.basename(root))
                res, err = scan_snapshot(vh, root, exp, given=given)
                loc = loc + ":" + spell
                if err:
                    ctx.violation({"kind": "scan-panicked", "location": loc}, {"err": err}, files=files)
                    continue
                ctx.judged()
                got = set(res["indexed"])
                # files that are indexed but have no fixture/usage cannot be observed; every generated file has both
                if got != exp:
                    ctx.violation({"kind": "indexed-set", "location": loc, "missing": sorted(exp - got)[:4], "unexpected": sorted(got - exp)[:4]},
                                  {"excludes": excludes, "broken": broken, "dirs": dirs}, files={k: v for k, v in files.items() if isinstance(v, str)})
                if base_snap is None:
                    base_snap = res["snap"]
                else:
                    ctx.judged()
                    dd = diff(base_snap, res["snap"])
                    if dd:
                        ctx.violation({"kind": "relocation-changes-outcome", "location": loc, "first": dd[0][0]},
                                      {"diffs": [(p, brief(a), brief(b)) for p, a, b in dd[:4]], "excludes": excludes},
                                      files={k: v for k, v in files.items() if isinstance(v, str)})
                ctx.nontrivial(("loc", loc, bool(excludes), tuple(sorted(set(broken.values())))))
            # the same tree without the broken files
            if broken:
                root2 = materialise(os.path.join(base, "Lclean"), "plain/ws", files, {})
                res2, err = scan_snapshot(vh, root2, exp)
                ctx.judged()
                if res2 and base_snap is not None:
                    dd = diff(base_snap, res2["snap"])
                    if dd:
                        ctx.violation({"kind": "broken-file-affects-others", "first": dd[0][0], "broken": sorted(set(broken.values()))},
                                      {"diffs": [(p, brief(a), brief(b)) for p, a, b in dd[:4]], "broken": broken},
                                      files={k: v for k, v in files.items() if isinstance(v, str)})
            for dname in dirs:
                for comp in dname.split("/"):
                    if comp:
                        ctx.nontrivial(("dirname", comp))
            for e in excludes:
                ctx.nontrivial(("exclude", e if e in ("**/generated/**", "legacy_*", "[") else ("path/**" if e.endswith("/**") else "exact")))
            # CLI on one location (no excludes there: the CLI does not read pyproject.toml)
            if i % 5 == 0:
                root = os.path.realpath(os.path.join(base, f"L{len(locs) - 1}", locs[-1]))
                rc, out, err = run_cli(srv_bin(), ["fixtures", "list", root])
                ctx.judged()
                if rc != 0 or "panicked" in err:
                    ctx.violation({"kind": "cli-failed"}, {"rc": rc, "stderr": err[-500:]}, files={k: v for k, v in files.items() if isinstance(v, str)})
                else:
                    tree, _f = parse_tree(out)
                    cli_files = {k[0] for k in tree}
                    exp_cli = expected_indexed(files, [], broken)
                    if cli_files != exp_cli:
                        ctx.violation({"kind": "cli-indexed-set", "location": locs[-1], "missing": sorted(exp_cli - cli_files)[:4],
                                       "unexpected": sorted(cli_files - exp_cli)[:4]}, {"out": out[-800:]},
                                      files={k: v for k, v in files.items() if isinstance(v, str)})
            ctx.sample({"dirs": dirs, "excludes": excludes, "broken": broken, "expected_indexed": sorted(exp)[:20]})
            ctx.count("trees")
            shutil.rmtree(base, ignore_errors=True)
    finally:
        vh.close()
