"""C05 — all features agree on which definition a name denotes.

Monitor: cross-feature monitor on the real server; no reference model.  Every generated definition
carries a unique docstring token (DOC<k>) and a unique return-type name (T<k>), so the definition a
feature used can be decoded from text-only responses.  For every usage position the identities decoded
from definition, hover, implementation, prepareCallHierarchy, outgoingCalls (of the enclosing fixture),
inlayHint and the completion entry must coincide, and the per-file view must contain the name once.
Also run on the repository's own example project (real-world files).
"""
import glob, os, re, shutil

from .. import gen
from ..common import Inconclusive
from ..lsp import LSP, uri_to_path
from ..pymodel import FileModel
from ..runner import srv_bin, materialize

KF_SELF_VIEW = "KF-C05-per-file-view-ignores-self-exclusion"

DOC_RE = re.compile(r"DOC(\d+)\b")
T_RE = re.compile(r"\bT(\d+)\b")


def ident_maps(files):
    """k -> (abs file, def line) and reverse, from the unique tokens"""
    k2d, d2k = {}, {}
    for f, t in files.items():
        if not f.endswith(".py"):
            continue
        m = FileModel(t, f)
        if not m.ok:
            continue
        for d in m.defs:
            mm = DOC_RE.search(d["docstring"] or "")
            if mm:
                k = int(mm.group(1))
                k2d[k] = (f, d["line"], d)
                d2k[(f, d["line"])] = k
    return k2d, d2k


def run(ctx):
    quick = ctx.tier == "quick"
    n = 12 if quick else 400
    ctx.rule = ("generated workspaces (redefinitions, overrides, imported, plugin and third-party names; every name requested "
                "from every directory) + the repository's example project; at every usage position the definitions decoded "
                "from 7 request kinds are compared; distinct = (usage kind, #same-named definitions, features that answered)")
    pinned(ctx)
    if os.environ.get("VERIF_ONLY_PINNED"):
        return
    directed_virtual_layouts(ctx)
    concurrent_views(ctx, 300 if quick else 30000)
    # directed: a conftest that only re-exports (defines nothing itself); the import-only edit inside one() removes one
    # of its imports, after which the cached per-file view must follow the navigation features
    from ..witness import fx as wfx, HDR as WHDR
    for variant in range(2):
        droot = ctx.scratch(f"reexport{variant}")
        dws = gen.WS(droot)
        dws.files = {"conftest.py": "from .fxm import *\nfrom .fxn import *\n" + (WHDR + wfx("uses_imported", 9, deps=["fx_a"]) if variant == 1 else ""),
                     "fxm.py": WHDR + wfx("fx_a", 1), "fxn.py": WHDR + wfx("fx_b", 2) + wfx("fx_c", 3, deps=["fx_b"]),
                     "__init__.py": "",
                     "test_probe.py": WHDR + "def test_p(fx_a, fx_b, fx_c):\n    pass\n\n@pytest.mark.usefixtures()\ndef test_zz_view_probe():\n    pass\n"}
        if variant == 1:
            dws.files["sub/conftest.py"] = "from ..fxn import fx_b\n"
            dws.files["sub/__init__.py"] = ""
            dws.files["sub/test_probe.py"] = dws.files["test_probe.py"]
        dws.spec = {"directed": "re-export-only conftest", "depth": 1, "names": ["fx_a", "fx_b", "fx_c"]}
        materialize(dws)
        one(ctx, dws.root, dws.abs_files(), dws.files, generated=True, spec=dws.spec)
        shutil.rmtree(droot, ignore_errors=True)
    for i in range(n):
        root = ctx.scratch(f"w{i}")
        ws = gen.gen_workspace(root, ctx.rng, depth=ctx.rng.randint(1, 3), venv=(i % 2 == 0), indirect_multi=True,
                               ws_plugin=(True if i == 0 else None))
        materialize(ws)
        one(ctx, ws.root, ws.abs_files(), ws.files, generated=True, spec=ws.spec)
        ctx.sample({"spec": ws.spec})
        shutil.rmtree(root, ignore_errors=True)
    # real-world files: the repository's example project (no unique tokens: location-returning features only)
    proj = "/repo/tests/test_project"
    if os.path.isdir(proj):
        root = ctx.scratch("proj")
        shutil.copytree(proj, os.path.join(root, "p"))
        files = {}
        for p in glob.glob(os.path.join(root, "p", "**", "*.py"), recursive=True):
            try:
                files[p] = open(p, encoding="utf-8").read()
            except Exception:
                pass
        one(ctx, os.path.join(root, "p"), files, {os.path.relpath(k, root): v for k, v in files.items()}, generated=False, spec="test_project")


def directed_virtual_layouts(ctx):
    """library level, documents that exist only as editor buffers: (1) a conftest.py in the file-system root directory;
    (2) a never-saved conftest.py that was closed again (its text left the cache, its records stay) below an outer conftest
    that defines the same name.  For every name the per-file view's entry and go-to-definition from a usage must name the
    same definition (or both none)."""
    from ..vh import VH
    from ..runner import vh_bin
    one_fx = lambda n, v: f"import pytest\n\n@pytest.fixture\ndef {n}():\n    return {v}\n\n"
    scen = []
    t1 = "def test_r(root_fx, nowhere_fx):\n    pass\n"
    scen.append(("conftest_in_the_filesystem_root", [("analyze", "/conftest.py", one_fx("root_fx", 1)), ("analyze", "/zz_c05_tests/test_root.py", t1)],
                 "/zz_c05_tests/test_root.py", t1, ["root_fx", "nowhere_fx"]))
    scen.append(("conftest_in_the_filesystem_root_deeper", [("analyze", "/conftest.py", one_fx("root_fx", 1)), ("analyze", "/zz_c05_tests/a/b/test_root.py", t1)],
                 "/zz_c05_tests/a/b/test_root.py", t1, ["root_fx", "nowhere_fx"]))
    t2 = "def test_m(mem_fx, outer_only):\n    pass\n"
    outer = one_fx("mem_fx", 0) + "@pytest.fixture\ndef outer_only():\n    return 0\n"
    for close_outer in (False, True):
        steps = [("analyze", "/vf_c05b/conftest.py", outer), ("analyze", "/vf_c05b/pkg/conftest.py", one_fx("mem_fx", 1)),
                 ("analyze", "/vf_c05b/pkg/test_m.py", t2), ("available", "/vf_c05b/pkg/test_m.py", None),
                 ("close", "/vf_c05b/pkg/conftest.py", None)] + ([("close", "/vf_c05b/conftest.py", None)] if close_outer else [])
        scen.append(("unsaved_conftest_closed" + ("_outer_closed_too" if close_outer else ""), steps, "/vf_c05b/pkg/test_m.py", t2, ["mem_fx", "outer_only"]))
    vh = VH(vh_bin(), locklog=os.path.join(ctx.scratch_root, "lock_vh.log"))
    try:
        for name, steps, probe, text, names in scen:
            db = vh.new_db()
            for op, path, txt in steps:
                if op == "analyze":
                    vh.call(op="analyze", db=db, path=path, text=txt)
                else:
                    vh.call(op=op, db=db, path=path)
            av = vh.call(op="available", db=db, path=probe)["available"]
            for n in names:
                col = text.index(n)
                g = vh.call(op="goto", db=db, path=probe, line=0, char=col).get("target")
                target = (g["file"], g["line"]) if g else None
                view = [(a["file"], a["line"]) for a in av if a["name"] == n]
                ctx.judged()
                if view != ([target] if target else []):
                    ctx.violation({"kind": "view-and-navigation-disagree", "scenario": name, "name": n},
                                  {"view_entry": view, "definition": target, "steps": [(o, p_) for o, p_, _ in steps]})
                if target:
                    ctx.nontrivial(("directed_virtual", name, n))
            vh.call(op="drop_db", db=db)
    finally:
        vh.close()


def concurrent_views(ctx, count):
    """the per-file view is computed (and cached) by one request while an edit of the conftest completes on another
    thread; at quiescence the view's entry for a name and go-to-definition from a usage of it must name the same
    definition.  Interleavings come from the serialising scheduler of the instrumented DashMap (shard-lock granularity)."""
    import json as _j
    from ..vh import VH
    from ..runner import vh_bin
    from .c07 import CQ_CONF1, CQ_CONF2, CQ_TEST
    D = "/vf_c05/pkg"
    conf, test = f"{D}/conftest.py", f"{D}/test_t.py"
    setup = [{"op": "analyze", "db": 0, "path": conf, "text": CQ_CONF1}, {"op": "analyze", "db": 0, "path": test, "text": CQ_TEST}]
    threads = [[{"op": "analyze", "db": 0, "path": conf, "text": CQ_CONF2}],
               [{"op": "available", "db": 0, "path": test}, {"op": "available", "db": 0, "path": test}],
               [{"op": "available", "db": 0, "path": conf}]]
    col = CQ_TEST.index("db")
    after = [{"op": "available", "db": 0, "path": test, "observe": True},
             {"op": "goto", "db": 0, "path": test, "line": 0, "char": col, "observe": True}]
    vh = VH(vh_bin(), locklog=os.path.join(ctx.scratch_root, "lock_vh.log"), env={"VERIF_SHARDS": "2"})
    try:
        for mode, pct in (("uniform", None), ("pct2", 2)):
            r = vh.call(op="sched_scenario", setup=setup, threads=threads, after=after, seed=ctx.seed * 131 + 3, count=count, pct=pct,
                        est=200, timeout=1800)
            if isinstance(r, dict) and r.get("sched_deadlock"):
                # every thread of the scenario is blocked on a map lock held by another: no outcome at all
                ctx.violation({"kind": "deadlock-under-scheduler", "where": "c05"}, {"detail": str(r.get("detail", ""))[:1500]})
                break
            if "distinct_schedules" not in r:
                raise Inconclusive(f"harness refused the scenario: {str(r)[:300]}")
            ctx.judged(count)
            for o in r["outcomes"]:
                obs = o["index"].split(";;OBS=", 1)[-1]
                view, target = None, "?"
                for part in obs.split("|{"):
                    part = part if part.startswith("{") else "{" + part
                    try:
                        v = _j.loads(part)
                    except Exception:
                        continue
                    if "available" in v:
                        view = [(a["file"], a["line"]) for a in v["available"] if a["name"] == "db"]
                    if "target" in v:
                        target = (v["target"]["file"], v["target"]["line"]) if v["target"] else None
                if view is None or target == "?":
                    raise Inconclusive("observation could not be decoded: " + obs[:200])
                if view != [target]:
                    ctx.violation({"kind": "view-and-navigation-disagree-after-concurrent-edit", "mode": mode},
                                  {"seed": o["first_seed"], "count": o["count"], "view_entry": view, "definition": target})
            ctx.nontrivial(("concurrent_views", mode, r["distinct_schedules"] > 10))
            ctx.extra["concurrent_view_schedules"] = ctx.extra.get("concurrent_view_schedules", 0) + r["distinct_schedules"]
    finally:
        vh.close()


def one(ctx, root, abs_files, rel_files, generated, spec):
    k2d, d2k = ident_maps(abs_files) if generated else ({}, {})
    state = {}
    srv = LSP(srv_bin(), root, locklog=os.path.join(ctx.scratch_root, "lock_srv.log"))
    try:
        srv.initialize(timeout=120)
        if not any("scan complete" in l for l in srv.logs):
            raise Inconclusive("scan did not complete")
        ndefs = {}
        for f, t in abs_files.items():
            if f.endswith(".py"):
                m = FileModel(t, f)
                if m.ok:
                    for d in m.defs:
                        ndefs[d["name"]] = ndefs.get(d["name"], 0) + 1
        skip_files = set()

        def sweep():
            for f, t in sorted(abs_files.items()):
                if not f.endswith(".py") or "/.venv/" in f or f in skip_files:
                    continue
                m = FileModel(t, f)
                if not m.ok or not m.usages:
                    continue
                # the per-file view, through completion on the probe decorator line (or inside a test signature)
                view = None
                lines = t.split("\n")
                for li, l in enumerate(lines):
                    if l.startswith("@pytest.mark.usefixtures()"):
                        r = srv.completion(f, li, len("@pytest.mark.usefixtures("))
                        if not r["answered"]:
                            raise Inconclusive("completion unanswered")
                        items = r.get("result") or []
                        if isinstance(items, dict):
                            items = items.get("items", [])
                        view = {}
                        for it in items:
                            view.setdefault(it["label"], []).append(it)
                        break
                hints = srv.inlay_hint(f).get("result") or []
                hint_at = {(h["position"]["line"], h["position"]["character"]): h["label"] for h in hints}
                for u in m.usages:
                    if u["name"] in ("request", "self", "cls") or u.get("has_default"):
                        continue
                    multi_indirect = u["kind"] == "indirect" and not u.get("exact_span", True) and u.get("plain_string", True)
                    if (not u.get("exact_span", True) or not u.get("plain_string", True)) and not multi_indirect:
                        continue        # (a name inside a multi-name indirect string is judged at its own columns)
                    pos = (u["line"] - 1, u["start_b"])
                    ids = {}
                    r = srv.definition(f, *pos)
                    if not r["answered"]:
                        raise Inconclusive("definition unanswered")
                    res = r.get("result")
                    if res:
                        res = res[0] if isinstance(res, list) else res
                        ids["definition"] = (uri_to_path(res["uri"]), res["range"]["start"]["line"] + 1)
                    else:
                        ids["definition"] = None
                    hv = srv.hover(f, *pos).get("result")
                    if hv:
                        val = hv["contents"]["value"]
                        mm = DOC_RE.search(val) or T_RE.search(val.split("```python")[1] if "```python" in val else "")
                        ids["hover"] = k2d[int(mm.group(1))][:2] if (mm and int(mm.group(1)) in k2d) else ("?", val[:80]) if generated else "text"
                    else:
                        ids["hover"] = None
                    im = srv.implementation(f, *pos).get("result")
                    if im:
                        im = im[0] if isinstance(im, list) else im
                        ip, il = uri_to_path(im["uri"]), im["range"]["start"]["line"] + 1
                        # implementation points at the yield line of generator fixtures: map back to the definition
                        tgt = None
                        tm = FileModel(abs_files.get(ip, ""), ip) if ip in abs_files else None
                        if tm and tm.ok:
                            for d in tm.defs:
                                if il in (d["line"], d["yield_line"]):
                                    tgt = (ip, d["line"])
                        ids["implementation"] = tgt or (ip, il)
                    else:
                        ids["implementation"] = None
                    pr = srv.prepare_call_hierarchy(f, *pos).get("result")
                    if pr:
                        it = pr[0]
                        ids["callHierarchy"] = (uri_to_path(it["uri"]), it["selectionRange"]["start"]["line"] + 1)
                    else:
                        ids["callHierarchy"] = None
                    self_named = u.get("in_def") is not None and u["in_def"]["name"] == u["name"]
                    # outgoing calls of the enclosing fixture
                    if u["kind"] == "fixture_param" and u["in_def"]["name_span"] and u["in_def"]["line"] == u["line"] \
                            and len([d for d in m.defs if d["name"] == u["in_def"]["name"]]) == 1:
                        d = u["in_def"]
                        pr2 = srv.prepare_call_hierarchy(f, d["line"] - 1, d["name_span"]["start_b"]).get("result")
                        if pr2:
                            out = srv.outgoing(pr2[0]).get("result") or []
                            tos = [(uri_to_path(o["to"]["uri"]), o["to"]["selectionRange"]["start"]["line"] + 1) for o in out if o["to"]["name"] == u["name"]]
                            ids["outgoingCalls"] = tos[0] if len(tos) == 1 else (None if not tos else ("multiple", tuple(tos)))
                    # inlay hint on this usage
                    lab = hint_at.get((u["line"] - 1, u["end_b"]))
                    if lab is None and generated and not u.get("annotated") and not u.get("string") and ids.get("definition") \
                            and u["kind"] in ("test_param", "fixture_param"):
                        # an unannotated parameter that resolves to a definition with a return type carries a hint
                        kk = d2k.get(ids["definition"])
                        if kk is not None and k2d[kk][2].get("return_type"):
                            ids["inlayHint"] = None
                    if lab is not None and generated and not u.get("annotated") and not multi_indirect:
                        lab = lab if isinstance(lab, str) else "".join(x["value"] for x in lab)
                        mm = T_RE.search(lab)
                        if mm and int(mm.group(1)) in k2d:
                            ids["inlayHint"] = k2d[int(mm.group(1))][:2]
                    # completion entry
                    if view is not None and generated:
                        ents = view.get(u["name"], [])
                        if len(ents) > 1:
                            ctx.violation({"kind": "name-listed-more-than-once-in-per-file-view", "name": u["name"], "file": os.path.relpath(f, root)},
                                          {"entries": [e.get("detail") for e in ents], "spec": spec}, files=rel_files)
                        if ents:
                            doc = ents[0].get("documentation", {})
                            val = doc.get("value", "") if isinstance(doc, dict) else str(doc)
                            mm = DOC_RE.search(val)
                            ids["completion"] = k2d[int(mm.group(1))][:2] if (mm and int(mm.group(1)) in k2d) else ("?", val[:60])
                        else:
                            ids["completion"] = None
                    # ---- judgement: all decoded identities equal -----------------------------------------------------
                    ctx.judged()
                    vals = {k: v for k, v in ids.items() if v != "text"}
                    base = vals.get("definition")
                    bad = {k: v for k, v in vals.items() if v != base}
                    if bad:
                        per_file = {"inlayHint", "completion"}
                        if self_named and set(bad) <= per_file and ctx.known(KF_SELF_VIEW):
                            # per-file view has one entry per name: from a same-named parameter navigation goes outward,
                            # the view keeps describing the file's own (overriding) definition
                            ctx.count("kf_self_param_view")
                        else:
                            ctx.violation({"kind": "features-disagree", "file": os.path.relpath(f, root), "usage": [u["name"], u["line"], u["start_b"]],
                                           "disagree": sorted(bad)},
                                          {"identities": {k: (os.path.relpath(v[0], root), v[1]) if isinstance(v, tuple) and isinstance(v[0], str) and v[0].startswith("/") else v
                                                          for k, v in vals.items()}, "usage_kind": u["kind"], "self_named": self_named, "spec": spec},
                                          files=rel_files)
                    ctx.nontrivial((u["kind"], min(ndefs.get(u["name"], 0), 4), tuple(sorted(k for k, v in vals.items() if v is not None)), self_named))

        pm_ = os.path.join(root, "wsplug", "plugin_mod.py")
        if generated and pm_ in abs_files:
            # the workspace plugin's module is opened in the editor (same text): its records are registered again, after those
            # of the installed plugins
            before = srv.seq
            srv.did_open(pm_, abs_files[pm_])
            srv.wait_diagnostics(pm_, before, timeout=20)
            ctx.nontrivial(("workspace_plugin_module_opened",))
        sweep()
        if generated and ctx.rng.random() < 0.5:
            # every conftest is opened and closed again (its text leaves the server's text cache, nothing else changes):
            # the features must still agree with each other
            confs_ = [f for f in abs_files if f.endswith("conftest.py") and "/.venv/" not in f]
            for cf in confs_:
                before = srv.seq
                srv.did_open(cf, abs_files[cf])
                srv.wait_diagnostics(cf, before, timeout=20)
            for cf in confs_:
                srv.did_close(cf)
            ctx.count("conftests_closed", len(confs_))
            ctx.nontrivial(("after_closing_conftests",))
            sweep()
        if generated:
            # import-only edit of a conftest (buffer only), then the same comparison again: the cached per-file
            # view must follow the navigation features
            confs = [f for f, t in abs_files.items() if f.endswith("conftest.py") and "/.venv/" not in f
                     and any(l.startswith(("from .", "from fx", "pytest_plugins")) for l in t.split("\n"))]
            for cf in confs[:2]:
                ls = abs_files[cf].split("\n")
                idx = [i for i, l in enumerate(ls) if l.startswith(("from .", "from fx", "pytest_plugins"))]
                del ls[ctx.rng.choice(idx)]
                nt = "\n".join(ls)
                abs_files = dict(abs_files); abs_files[cf] = nt
                rel_files = dict(rel_files); rel_files[os.path.relpath(cf, root)] = nt
                before = srv.seq
                srv.did_open(cf, nt)
                srv.wait_diagnostics(cf, before, timeout=20)
                k2d, d2k = ident_maps(abs_files)
                ctx.count("import_only_edits")
                sweep()
                if ctx.rng.random() < 0.5:
                    # the tab is closed without saving: the file on disk (with the import) is what counts again
                    # (the index keeps the records of the buffer version - lines included - so the identity maps stay as they
                    # are; what changes is the text the server reads for the conftest's imports)
                    srv.did_close(cf)
                    skip_files.add(cf)        # positions inside the discarded buffer itself mean nothing any more
                    ctx.count("closed_without_saving")
                    ctx.nontrivial(("closed_without_saving",))
                    sweep()
        ctx.count("workspaces")
    finally:
        un = srv.unanswered()
        srv.shutdown()
        if un:
            raise Inconclusive("server stopped answering (C11 territory)")


def pinned(ctx):
    from ..witness import WITNESS, ws_from_witness
    w = WITNESS[KF_SELF_VIEW]
    ws = ws_from_witness(ctx, w)
    one(ctx, ws.root, ws.abs_files(), ws.files, generated=True, spec=w["spec"])
    shutil.rmtree(ws.root, ignore_errors=True)
