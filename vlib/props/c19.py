"""C19 — published diagnostics track the latest content and the configuration.

Monitor: offline trace checker.  The real server is driven through edit histories of a document and its
conftest files under generated pyproject.toml variants (all subsets of disabled codes; valid, partially
invalid, malformed, absent).  After every open/change the last publishDiagnostics notification received
for that document is compared with the findings for the latest content: a cold library index of the workspace
on disk plus the open buffers (changed document analysed last), asked through the three collectors, minus the
codes the configuration disables.  (Replaying the same history in the library instead would share any stale
cache with the server and hide it.)  Some steps send two versions back to back without waiting.
"""
import itertools, json, os, random, shutil, time

from ..common import Inconclusive, write_tree
from ..lsp import LSP, path_to_uri
from ..runner import vh_bin, srv_bin
from ..twins import norm_cycle_path
from ..vh import VH

CODES = ["undeclared-fixture", "circular-dependency", "scope-mismatch"]
HDR = "import pytest\n\n"


def fx(name, deps=(), scope=None):
    d = f'@pytest.fixture(scope="{scope}")' if scope else "@pytest.fixture"
    return f"{d}\ndef {name}({', '.join(deps)}):\n    return 1\n\n"


ROOT_CONF = HDR + fx("fa", scope="session") + fx("fb") + fx("fc", scope="module")
PKG_CONF = "from .helpers_mod import *\n" + HDR + fx("fd")


def helpers_text(name):
    """the module pkg/conftest.py star-imports: one function-scoped fixture whose NAME changes"""
    return HDR + fx(name) + fx("hconst", scope="session")
EXCL_CONF = HDR + fx("ex_fix")


def pyproject_variants():
    out = []
    for k in range(0, 4):
        for sub in itertools.combinations(CODES, k):
            out.append(("valid", list(sub), "[tool.pytest-language-server]\ndisabled_diagnostics = " + json.dumps(list(sub)) + "\n", set(sub), False))
    out.append(("absent", [], None, set(), False))
    out.append(("malformed", [], "[tool.pytest-language-server\ndisabled_diagnostics = [\"undeclared-fixture\"]\n", set(), False))
    out.append(("wrong_type", [], "[tool.pytest-language-server]\ndisabled_diagnostics = \"undeclared-fixture\"\n", set(), False))
    out.append(("unknown_codes", ["scope-mismatch"],
                "[tool.pytest-language-server]\ndisabled_diagnostics = [\"nope\", \"scope-mismatch\", \"\", \"UNDECLARED-FIXTURE\"]\nexclude = [\"[\", \"excluded_dir/**\", \"***\"]\nextra_key = 1\n",
                {"scope-mismatch"}, True))
    out.append(("duplicates", ["undeclared-fixture", "scope-mismatch", "undeclared-fixture"],
                "[tool.pytest-language-server]\ndisabled_diagnostics = [\"undeclared-fixture\", \"scope-mismatch\", \"undeclared-fixture\"]\n",
                {"undeclared-fixture", "scope-mismatch"}, False))
    out.append(("other_tools", ["circular-dependency"],
                "[project]\nname = \"x\"\n\n[tool.other]\na = 1\n\n[tool.pytest-language-server]\nskip_plugins = [\"a\"]\nfixture_paths = [\"x\"]\ndisabled_diagnostics = [\"circular-dependency\"]\n",
                {"circular-dependency"}, False))
    out.append(("bad_glob_only", [], "[tool.pytest-language-server]\nexclude = [\"[\"]\ndisabled_diagnostics = [\"undeclared-fixture\"]\n", {"undeclared-fixture"}, False))
    return out


def doc_versions(rng, n, directed=False):
    """sequence of (target, text, label); target in doc/pkg_conf/root_conf"""
    parts = {"und": False, "und2": False, "cycle": False, "self": False, "mismatch": False, "mismatch_ok": False,
             "mismatch2": False, "mismatch_h": False, "mismatch_h2": False, "twice": False, "twice_bad": False}
    hname = ["fh"]
    pkg_has_fd = True
    root_has_fa = True
    steps = []

    def render():
        s = HDR
        if parts["cycle"]:
            s += fx("cy1", ["cy2"]) + fx("cy2", ["cy1"])
        if parts["self"]:
            s += fx("selfdep", ["selfdep"])
        if parts["mismatch"]:
            s += fx("wide", ["fb"], scope="session")
        if parts["mismatch_ok"]:
            s += fx("wide_ok", ["fa"], scope="session")
        if parts["mismatch2"]:
            s += fx("wide2", ["fb", "fd", "fa"], scope="session")       # two narrower dependencies on one fixture
        if parts["mismatch_h"]:
            s += fx("wide_h", ["fh"], scope="session")                  # dependency supplied through the conftest's import
        if parts["mismatch_h2"]:
            s += fx("wide_h2", ["fh2", "hconst"], scope="session")
        if parts["twice"]:
            # the same fixture name defined twice in the document (one per test class); "bad": both broader than their dependency
            sc = '(scope="session")' if parts["twice_bad"] else ""
            s += "".join(f"class Test{c}:\n    @pytest.fixture{sc}\n    def data(self, fb):\n        return 1\n\n    def test_in_{c.lower()}(self, data):\n        pass\n\n" for c in "AB")
        s += "def test_ok(fa, fd):\n    pass\n\n"
        if parts["und"]:
            s += "def test_und():\n    v = fb\n    assert fb.x\n\n"
        if parts["und2"]:
            s += "def test_und2(fa):\n    return fd(fc)\n\n"
        return s
    def burst():
        # two versions back to back, a slow one (much larger, with one more / one fewer finding) first: the last publish
        # must belong to the last text
        k = rng.choice(["und", "cycle", "self", "mismatch", "und2"])
        parts[k] = not parts[k]
        big = render() + "".join(f"def test_pad{i}(fa, fd):\n    x{i} = [fa, fd]\n    return x{i}\n\n" for i in range(2500))
        parts[k] = not parts[k]
        steps.append(("doc", big, "burst_first"))
        steps.append(("doc", render(), "burst_second"))
    steps.append(("doc", render(), "open"))
    # one finding of every code, so that every configuration variant is seen filtering (or not filtering) each of them
    parts["und"] = parts["cycle"] = parts["mismatch"] = True
    steps.append(("doc", render(), "add_all_kinds"))
    if directed:
        # one name defined twice in the document: the scopes are corrected, then both definitions are deleted
        parts["twice"] = parts["twice_bad"] = True
        steps.append(("doc", render(), "add_twice_bad"))
        parts["twice_bad"] = False
        steps.append(("doc", render(), "twice_scopes_corrected"))
        parts["twice"] = False
        steps.append(("doc", render(), "remove_twice"))
        # a dependency that the conftest supplies through its import is renamed in the imported module
        parts["mismatch_h"] = True
        steps.append(("doc", render(), "add_mismatch_h"))
        hname[0] = "fh2"
        steps.append(("helpers", helpers_text("fh2"), "helpers_rename_to_fh2"))
        steps.append(("doc", render(), "resend_after_helpers_edit"))
        parts["mismatch_h2"] = True
        steps.append(("doc", render(), "add_mismatch_h2"))
        hname[0] = "fh"
        steps.append(("helpers", helpers_text("fh"), "helpers_rename_to_fh"))
        steps.append(("doc", render(), "resend_after_helpers_edit"))
        steps.append(("doc", None, "close"))
        parts["cycle"] = not parts["cycle"]
        parts["mismatch"] = not parts["mismatch"]
        parts["self"] = not parts["self"]
        steps.append(("doc", render(), "reopen_changed"))
        # an edit elsewhere changes what the document's findings should be; the document is then re-sent unchanged
        parts["und2"] = True
        steps.append(("doc", render(), "add_und2"))
        pkg_has_fd = not pkg_has_fd
        steps.append(("pkg_conf", PKG_CONF if pkg_has_fd else HDR, "pkg_conf_" + ("add_fd" if pkg_has_fd else "remove_fd")))
        steps.append(("doc", render(), "resend_after_conftest_edit"))
        root_has_fa = not root_has_fa
        steps.append(("root_conf", ROOT_CONF if root_has_fa else HDR + fx("fb") + fx("fc", scope="module"), "root_conf_toggle_fa"))
        steps.append(("doc", render(), "resend_after_conftest_edit"))
    for _ in range(n):
        r = rng.random()
        if r < 0.55:
            k = rng.choice(list(parts))
            parts[k] = not parts[k]
            steps.append(("doc", render(), ("add_" if parts[k] else "remove_") + k))
        elif r < 0.65:
            steps.append(("doc", render() + "def broken(:\n", "break_syntax"))
            steps.append(("doc", render(), "repair"))
        elif r < 0.72:
            steps.append(("doc", render(), "resend"))
        elif r < 0.80:
            # the imported module renames its fixture (the conftest's own text does not change)
            hname[0] = "fh2" if hname[0] == "fh" else "fh"
            steps.append(("helpers", helpers_text(hname[0]), "helpers_rename_to_" + hname[0]))
            steps.append(("doc", render(), "resend_after_helpers_edit"))
        elif r < 0.84:
            burst()
        elif r < 0.87:
            # the tab is closed and the document opened again with other fixtures in it
            steps.append(("doc", None, "close"))
            for k in rng.sample(["cycle", "self", "mismatch", "mismatch2", "und"], 2):
                parts[k] = not parts[k]
            steps.append(("doc", render(), "reopen_changed"))
        elif r < 0.88:
            pkg_has_fd = not pkg_has_fd
            steps.append(("pkg_conf", PKG_CONF if pkg_has_fd else HDR, "pkg_conf_" + ("add_fd" if pkg_has_fd else "remove_fd")))
            steps.append(("doc", render(), "resend_after_conftest_edit"))
        else:
            root_has_fa = not root_has_fa
            steps.append(("root_conf", ROOT_CONF if root_has_fa else HDR + fx("fb") + fx("fc", scope="module"), "root_conf_toggle_fa"))
            steps.append(("doc", render(), "resend_after_conftest_edit"))
    burst()
    return steps


def norm_diag(d):
    code = d.get("code")
    r = d["range"]
    if code == "circular-dependency":
        names = d["message"].split(": ", 1)[1].split(" → ")
        return (code, tuple(norm_cycle_path(names)))
    return (code, r["start"]["line"], r["start"]["character"], r["end"]["line"], r["end"]["character"], d["message"], d.get("severity"))


def expected_from_library(vh, db, path, disabled):
    out = []
    if "undeclared-fixture" not in disabled:
        for u in vh.call(op="undeclared", db=db, path=path)["undeclared"]:
            out.append(("undeclared-fixture", u["line"] - 1, u["start_char"], u["line"] - 1, u["end_char"],
                        f"Fixture '{u['name']}' is used but not declared as a parameter", 2))
    if "circular-dependency" not in disabled:
        for c in vh.call(op="cycles_in_file", db=db, path=path)["cycles"]:
            out.append(("circular-dependency", tuple(norm_cycle_path(c["path"]))))
    if "scope-mismatch" not in disabled:
        for m in vh.call(op="mismatches", db=db, path=path)["mismatches"]:
            f_, d_ = m["fixture"], m["dependency"]
            out.append(("scope-mismatch", f_["line"] - 1, f_["start_char"], f_["line"] - 1, f_["end_char"],
                        f"{f_['scope']}-scoped fixture '{f_['name']}' depends on {d_['scope']}-scoped fixture '{d_['name']}'", 2))
    return sorted(out, key=str)


def run(ctx):
    quick = ctx.tier == "quick"
    variants = pyproject_variants()
    n_sessions = len(variants) if quick else len(variants) * 12
    steps_n = 8 if quick else 25
    ctx.rule = ("edit histories (add/remove undeclared uses, same-file cycles, self-dependency, scope mismatch; break/repair; "
                "resend; conftest and imported-module edits; two versions back to back) x pyproject.toml variants (all subsets of disabled codes, malformed, wrong types, unknown "
                "codes + invalid globs, duplicates, absent); last published set per change vs the collectors on a cold index of the latest content; distinct = "
                "(config variant, operation, set of codes published)")
    vh = VH(vh_bin(), locklog=os.path.join(ctx.scratch_root, "lock_vh.log"))
    try:
        for si in range(n_sessions):
            label, raw_list, toml, disabled, has_exclude = variants[si % len(variants)]
            root = ctx.scratch(f"s{si}")
            files = {"conftest.py": ROOT_CONF, "pkg/conftest.py": PKG_CONF, "pkg/test_doc.py": HDR, "pkg/helpers_mod.py": helpers_text("fh"),
                     "pkg/__init__.py": "", "elsewhere/conftest.py": HDR + fx("fh") + fx("fh2"), "excluded_dir/conftest.py": EXCL_CONF,
                     "excluded_dir/test_e.py": "def test_e(ex_fix):\n    pass\n"}
            if toml is not None:
                files["pyproject.toml"] = toml
            write_tree(root, files)
            paths = {"doc": os.path.join(root, "pkg/test_doc.py"), "pkg_conf": os.path.join(root, "pkg/conftest.py"),
                     "root_conf": os.path.join(root, "conftest.py"), "helpers": os.path.join(root, "pkg/helpers_mod.py")}
            hold = si % 3 == 1
            gate = ctx.scratch(f"gate{si}") if hold else None
            srv = LSP(srv_bin(), root, locklog=os.path.join(ctx.scratch_root, "lock_srv.log"),
                      env=({"VERIF_SCAN_PHASE_GATE": gate} if hold else None))
            db = vh.new_db()
            early_opened = False
            try:
                srv.initialize(wait_scan=not hold)
                if hold:
                    # a document is opened while the start-up scan is still running (held between its phases): what is
                    # published for it already respects the configuration
                    t_end = time.time() + 30
                    while not os.path.exists(os.path.join(gate, "phase2_done.reached")) and time.time() < t_end:
                        srv.pump(0.05)
                    if not os.path.exists(os.path.join(gate, "phase2_done.reached")):
                        raise Inconclusive("phase failpoint not reached")
                    early_text = doc_versions(random.Random(si), 0)[1][1]
                    before = srv.seq
                    srv.did_open(os.path.join(root, "pkg/test_doc.py"), early_text)
                    got0 = srv.wait_diagnostics(os.path.join(root, "pkg/test_doc.py"), before, timeout=20)
                    ctx.judged()
                    if got0 is None:
                        ctx.violation({"kind": "no-publish-after-open-during-scan", "variant": label}, {}, files=files)
                    elif any(d.get("code") in disabled for d in got0):
                        ctx.violation({"kind": "disabled-code-published", "variant": label, "when": "document opened during the start-up scan"},
                                      {"published": sorted({d.get("code") for d in got0}), "disabled": sorted(disabled)}, files=files | {"doc.py": early_text})
                    ctx.nontrivial((label, "opened_during_scan", tuple(sorted({d.get("code") for d in (got0 or [])}))))
                    early_opened = True
                    open(os.path.join(gate, "phase2_done.go"), "w").close()
                    srv.wait_log("Workspace scan complete", 60)
                if not any("scan complete" in l for l in srv.logs):
                    ctx.violation({"kind": "server-did-not-come-up-with-this-configuration", "variant": label},
                                  {"logs": srv.logs[-3:], "stderr": srv.stderr_text()[-600:], "toml": toml}, files=files)
                    continue
                cfg = vh.call(op="scan_config", db=db, root=root)
                # the configuration as the statement defines it
                ctx.judged()
                if set(cfg.get("disabled", [])) != disabled:
                    ctx.violation({"kind": "config-disabled-codes", "variant": label}, {"loaded": cfg.get("disabled"), "expected": sorted(disabled), "toml": toml}, files=files)
                if has_exclude:
                    syms = {s["name"] for s in (srv.workspace_symbol("").get("result") or [])}
                    ctx.judged()
                    if "ex_fix" in syms:
                        ctx.violation({"kind": "valid-exclude-pattern-ignored-next-to-invalid-ones", "variant": label}, {"symbols": sorted(syms)}, files=files)
                    if not {"fa", "fd"} <= syms:
                        ctx.violation({"kind": "invalid-entry-disabled-the-rest", "variant": label}, {"symbols": sorted(syms)}, files=files)
                opened = {"doc"} if early_opened else set()
                cur, last_valid = {}, {}
                steps = doc_versions(ctx.rng, steps_n, directed=(si % 2 == 0))
                hist = []
                for (tgt, text, op) in steps:
                    p = paths[tgt]
                    if op == "close":
                        srv.did_close(p)
                        opened.discard(tgt)
                        hist.append((tgt, op))
                        continue
                    if op == "burst_first":
                        burst_text = text             # sent together with the next version, in one write
                        hist.append((tgt, op))
                        continue
                    before = srv.seq
                    if op == "burst_second":
                        with srv.batch():
                            (srv.did_change if tgt in opened else srv.did_open)(p, burst_text)
                            srv.did_change(p, text)
                    else:
                        (srv.did_change if tgt in opened else srv.did_open)(p, text)
                    opened.add(tgt)
                    hist.append((tgt, op))
                    cur[tgt] = text
                    if vh.call(op="parses", text=text)["ok"]:
                        last_valid[tgt] = text
                    got = srv.wait_diagnostics(p, before, timeout=20)
                    if op == "burst_second":
                        # both versions publish; wait for both notifications, quiesce (a request is answered after the
                        # notifications before it were handled), then the LAST notification is the one the editor shows
                        t_end = time.time() + 15
                        while time.time() < t_end and sum(1 for sq, _ in srv.diag.get(path_to_uri(p), []) if sq > before) < 2:
                            srv.pump(0.1)
                        srv.document_symbol(p)
                        srv.pump(0.3)
                        allp = srv.diag.get(path_to_uri(p), [])
                        got = allp[-1][1] if allp else None
                    ctx.judged()
                    if got is None:
                        ctx.violation({"kind": "no-publish-after-change", "variant": label, "op": op}, {"history": hist}, files=files | {"doc.py": text})
                        continue
                    # the findings for the latest content: a cold index of the workspace on disk + the open buffers (last valid
                    # text, then the current one if it does not parse), the changed document analysed last
                    vh.call(op="drop_db", db=db)
                    db = vh.new_db()
                    vh.call(op="scan_config", db=db, root=root)
                    for t_ in [x for x in cur if x != tgt] + [tgt]:
                        if t_ in last_valid:
                            vh.call(op="analyze", db=db, path=paths[t_], text=last_valid[t_])
                        if cur[t_] != last_valid.get(t_):
                            vh.call(op="analyze", db=db, path=paths[t_], text=cur[t_])
                    exp = expected_from_library(vh, db, p, disabled)
                    gotn = sorted((norm_diag(d) for d in got), key=str)
                    if gotn != exp:
                        ctx.violation({"kind": "published-set-differs", "variant": label, "op": op, "target": tgt,
                                       "missing": [str(x)[:120] for x in exp if x not in gotn][:3],
                                       "unexpected": [str(x)[:120] for x in gotn if x not in exp][:3]},
                                      {"history": hist, "disabled": sorted(disabled)}, files=files | {"current_" + tgt + ".py": text})
                    # disabled codes never appear
                    if any(d.get("code") in disabled for d in got):
                        ctx.violation({"kind": "disabled-code-published", "variant": label}, {"got": gotn}, files=files)
                    ctx.nontrivial((label, op, tuple(sorted({d.get("code") for d in got}))))
                if si % 3 == 2:
                    # a new document is opened before it exists on disk, through another spelling of the workspace path (a
                    # symbolic link); it is then saved and edited: from then on its conftest environment counts
                    alias = ctx.scratch(f"alias{si}")
                    os.symlink(root, os.path.join(alias, "ws"))
                    ap = os.path.join(alias, "ws", "pkg", "test_new_doc.py")
                    rp = os.path.join(root, "pkg", "test_new_doc.py")
                    t1 = "def test_new():\n    v = fd\n    return fd.x\n"
                    before = srv.seq
                    srv.did_open(ap, t1)
                    srv.wait_diagnostics(ap, before, timeout=20)
                    with open(rp, "w") as fh_:
                        fh_.write(t1)
                    t2 = t1 + "\n\ndef test_new2(fa):\n    return fb\n"
                    before = srv.seq
                    srv.did_change(ap, t2)
                    got = srv.wait_diagnostics(ap, before, timeout=20)
                    if got is None:
                        # published under the canonical spelling
                        allp = srv.diag.get(path_to_uri(rp), [])
                        got = allp[-1][1] if allp and allp[-1][0] > before else None
                    vh.call(op="drop_db", db=db)
                    db = vh.new_db()
                    vh.call(op="scan_config", db=db, root=root)
                    for t_ in cur:
                        if t_ in last_valid:
                            vh.call(op="analyze", db=db, path=paths[t_], text=last_valid[t_])
                    vh.call(op="analyze", db=db, path=rp, text=t2)
                    exp = expected_from_library(vh, db, rp, disabled)
                    ctx.judged()
                    gotn = sorted((norm_diag(d) for d in (got or [])), key=str)
                    if got is None or gotn != exp:
                        ctx.violation({"kind": "published-set-differs", "variant": label, "op": "new_document_saved_then_changed",
                                       "missing": [str(x)[:120] for x in exp if x not in gotn][:3], "unexpected": [str(x)[:120] for x in gotn if x not in exp][:3]},
                                      {"published_at_all": got is not None, "disabled": sorted(disabled)}, files=files | {"pkg/test_new_doc.py": t2})
                    ctx.nontrivial((label, "new_document_through_symlink", tuple(sorted({d.get("code") for d in (got or [])}))))
                    # the open document is opened a second time under another spelling of its path (the symbolic link), then
                    # changed under the FIRST spelling: the publication for that change arrives under the spelling the change
                    # was sent with, and carries the findings of the new text
                    p = paths["doc"]
                    ap2 = os.path.join(alias, "ws", "pkg", "test_doc.py")
                    bad = HDR + "def test_ok(fa, fd):\n    pass\n\ndef test_und():\n    v = fb\n    return fb.x\n"
                    good = HDR + "def test_ok(fa, fd):\n    pass\n"
                    before = srv.seq
                    (srv.did_change if "doc" in opened else srv.did_open)(p, bad)
                    opened.add("doc")
                    srv.wait_diagnostics(p, before, timeout=20)
                    before = srv.seq
                    srv.did_open(ap2, bad)
                    srv.wait_diagnostics(ap2, before, timeout=20)
                    before = srv.seq
                    srv.did_change(p, good)
                    got = srv.wait_diagnostics(p, before, timeout=20)
                    cur["doc"] = last_valid["doc"] = good
                    vh.call(op="drop_db", db=db)
                    db = vh.new_db()
                    vh.call(op="scan_config", db=db, root=root)
                    for t_ in [x for x in cur if x != "doc"] + ["doc"]:
                        if t_ in last_valid:
                            vh.call(op="analyze", db=db, path=paths[t_], text=last_valid[t_])
                    exp = expected_from_library(vh, db, p, disabled)
                    ctx.judged()
                    gotn = sorted((norm_diag(d) for d in (got or [])), key=str)
                    if got is None:
                        ctx.violation({"kind": "no-publish-under-the-uri-of-the-change", "variant": label},
                                      {"uris_published_since": sorted(u for u, lst in srv.diag.items() if lst and lst[-1][0] > before)}, files=files | {"doc.py": good})
                    elif gotn != exp:
                        ctx.violation({"kind": "published-set-differs", "variant": label, "op": "changed_under_first_of_two_uris",
                                       "missing": [str(x)[:120] for x in exp if x not in gotn][:3], "unexpected": [str(x)[:120] for x in gotn if x not in exp][:3]},
                                      {"disabled": sorted(disabled)}, files=files | {"doc.py": good})
                    ctx.nontrivial((label, "two_uris_for_one_document", tuple(sorted({d.get("code") for d in (got or [])}))))
                    srv.did_close(ap2)
                ctx.sample({"variant": label, "toml": toml, "history": hist})
                ctx.count("sessions")
            finally:
                un = srv.unanswered()
                srv.shutdown()
                vh.call(op="drop_db", db=db)
                shutil.rmtree(root, ignore_errors=True)
                if un:
                    raise Inconclusive("server stopped answering")
    finally:
        vh.close()
