"""C07 — caching, closing documents and cache eviction are invisible.

Monitor: twin execution.  A = long-lived database that is queried, has documents closed and
re-opened and (in the eviction scenario) crosses the 2000-entry file-cache limit; B = cold twin
rebuilt at every comparison point from the *same analysis sequence* and nothing else.  Identical
analysis sequences give identical registration order, so any difference is caused by cached state.
Every edit is also written to disk, so closing a document is always "closing an unmodified document".
"""
import os, shutil

from .. import gen, hist
from ..common import Inconclusive, write_tree
from ..runner import vh_bin, materialize
from ..twins import diff, brief, norm_queries
from ..vh import VH, strip_root

KF_CYCLE = "KF-C07-import-cycle-memo-truncated"


def observe(vh, db, ws, extra_paths):
    q = norm_queries(vh.call(op="queries", db=db, files=extra_paths, timeout=300))
    imp = {}
    for p in extra_paths:
        if os.path.basename(p) != "conftest.py":
            continue   # the server only ever asks this question about conftest.py files
        imp[p] = vh.call(op="imported", db=db, path=p)["imported"]
    q["imported"] = imp
    return q


def replay(vh, ws, seq):
    B = vh.new_db()
    res = vh.call(op="batch", cmds=[dict(c, db=B) for c in seq], timeout=600)["results"]
    for r in res:
        if "panic" in r:
            raise Inconclusive(f"analysis panicked: {r}")
    return B


def run_history(ctx, vh, ws, steps, tag, allow_kf_cycle=False):
    root = ws.root
    order = sorted(ws.workspace_py())
    seq = [{"op": "analyze_fresh", "path": ws.abs(r), "text": ws.files[r]} for r in order]
    A = vh.new_db()
    vh.call(op="batch", cmds=[dict(c, db=A) for c in seq])
    current = {r: ws.files[r] for r in order}
    closed = set()
    mods = [ws.abs(r) for r in order]
    prev_op = "init"
    for k, st in enumerate(steps):
        # --- interleaved queries on A only (warm the caches in a history-dependent order) ---------
        for _ in range(ctx.rng.randint(0, 3)):
            kind = ctx.rng.choice(["imported", "available", "cycles", "snapshot"])
            p = ctx.rng.choice(mods)
            if kind == "imported":
                vh.call(op="imported", db=A, path=p)
            elif kind == "available":
                vh.call(op="available", db=A, path=p)
            elif kind == "cycles":
                vh.call(op="cycles", db=A)
            else:
                vh.call(op="queries", db=A)
            ctx.count("warmup_queries")
        # --- the edit (buffer and disk) -------------------------------------------------------------
        if st["op"] == "close":
            vh.call(op="close", db=A, path=ws.abs(st["rel"]))
            closed.add(st["rel"])
            ctx.count("closes")
        elif st["op"] == "reopen":
            c = {"op": "analyze", "path": ws.abs(st["rel"]), "text": current[st["rel"]]}
            seq.append(c)
            vh.call(**dict(c, db=A))
            closed.discard(st["rel"])
        else:
            write_tree(root, {st["rel"]: st["text"]})
            current[st["rel"]] = st["text"]
            c = {"op": "analyze", "path": ws.abs(st["rel"]), "text": st["text"]}
            seq.append(c)
            r = vh.call(**dict(c, db=A))
            if "panic" in r:
                raise Inconclusive(f"analysis panicked: {r}")
            closed.discard(st["rel"])
        # --- comparison against a cold twin -----------------------------------------------------------
        B = replay(vh, ws, seq)
        qa = observe(vh, A, ws, mods)
        qb = observe(vh, B, ws, mods)
        ctx.judged()
        dd = diff(qa, qb)
        if dd:
            if allow_kf_cycle and all(p.startswith("/imported") or p.startswith("/available") or p.startswith("/goto")
                                      or p.startswith("/refs") or p.startswith("/unused") for p, _, _ in dd) \
                    and ctx.known(KF_CYCLE):
                pass
            else:
                ctx.violation({"kind": "warm-vs-cold", "first_diff": strip_root(dd[0][0], root), "tag": tag,
                               "ops": [s["op"] for s in steps[:k + 1]][-3:]},
                              {"diffs": [(strip_root(p, root), brief(strip_root(x, root)), brief(strip_root(y, root))) for p, x, y in dd[:5]],
                               "history": [(s["op"], s["rel"]) for s in steps[:k + 1]], "closed": sorted(closed)},
                              files={"initial/" + r: t for r, t in ws.files.items()} |
                                    {f"step{i:02d}_{s['op']}/{s['rel']}": s.get("text", "") for i, s in enumerate(steps[:k + 1])})
        ctx.nontrivial((tag, prev_op, st["op"]))
        prev_op = st["op"]
        vh.call(op="drop_db", db=B)
    vh.call(op="drop_db", db=A)


def with_closes(ctx, steps, ws):
    out = []
    closed = set()
    for st in steps:
        out.append(st)
        r = ctx.rng.random()
        if r < 0.35:
            cands = [x for x in ws.workspace_py() if x not in closed]
            # conftests and imported modules are the interesting documents to close
            cands = [c for c in cands if "conftest" in c or "fxm" in c or "/m" in c] or cands
            if not cands:
                continue
            rel = ctx.rng.choice(cands)
            out.append({"op": "close", "rel": rel})
            closed.add(rel)
        elif r < 0.45 and closed:
            rel = ctx.rng.choice(sorted(closed))
            out.append({"op": "reopen", "rel": rel})
            closed.discard(rel)
    return out


def run(ctx):
    quick = ctx.tier == "quick"
    n_hist = 30 if quick else 1200
    n_cyc = 10 if quick else 300
    n_evict = 1 if quick else 8
    max_steps = 8 if quick else 25
    ctx.rule = ("edit histories (each edit written to disk) with interleaved queries, document closes/re-opens and "
                "cache eviction on a long-lived database vs a cold twin replaying the same analyses; forced classes: "
                "definition-removing edits, import-only edits, mutually importing modules, >2000 cached files; "
                "distinct = (scenario, operator before, operator after)")
    vh = VH(vh_bin(), locklog=os.path.join(ctx.scratch_root, "lock_vh.log"))
    try:
        directed_query_orders(ctx, vh)
        for h in range(n_hist):
            root = ctx.scratch(f"h{h}")
            ws = gen.gen_workspace(root, ctx.rng, depth=ctx.rng.randint(1, 3), venv=False, module_pkg_twins=True)
            materialize(ws)
            steps = with_closes(ctx, hist.gen_history(ws, ctx.rng, ctx.rng.randint(3, max_steps), parses=lambda t: vh.call(op="parses", text=t)["ok"]), ws)
            run_history(ctx, vh, ws, steps, "edits")
            ctx.sample({"workspace": ws.spec, "history": [(s["op"], s["rel"]) for s in steps]})
            ctx.count("histories")
            shutil.rmtree(root, ignore_errors=True)
        for h in range(n_cyc):
            root = ctx.scratch(f"c{h}")
            ws = gen.gen_import_cycle_ws(root, ctx.rng)
            materialize(ws)
            steps = with_closes(ctx, hist.gen_history(ws, ctx.rng, ctx.rng.randint(2, 6), names=ws.spec["names"], parses=lambda t: vh.call(op="parses", text=t)["ok"]), ws)
            run_history(ctx, vh, ws, steps, f"import_cycle_{ws.spec['import_cycle']}", allow_kf_cycle=ws.spec["import_cycle"] >= 3)
            ctx.count("import_cycle_histories")
            shutil.rmtree(root, ignore_errors=True)
        for h in range(n_evict):
            run_eviction(ctx, vh, h)
        for h in range(6 if quick else 200):
            query_before_scan(ctx, vh, h)
        concurrent_query_vs_analysis(ctx, vh, 400 if quick else 20000)
    finally:
        vh.close()
    for h in range(1 if quick else 6):
        server_close_and_eviction(ctx, h)


LC_CONF = ("import pytest\n\n@pytest.fixture\ndef fa() -> int:\n    \"\"\"doc of fa\"\"\"\n    return 1\n\n"
           "@pytest.fixture(scope=\"session\")\ndef fb() -> str:\n    return \"x\"\n")
LC_DOC = ("import pytest\n\n@pytest.fixture\ndef local(fb):\n    return fb\n\n"
          "def test_one(fb, local):\n    v = fa\n    return v\n\ndef test_two(local):\n    pass\n")


def server_close_and_eviction(ctx, h):
    """the same through the real server and every request kind: answers about an unchanged document before / after other
    documents and the document itself are closed, and while > 2000 other documents are opened (eviction)"""
    import json as _j
    from ..lsp import LSP
    from ..runner import srv_bin
    root = ctx.scratch(f"srvclose{h}")
    files = {"conftest.py": LC_CONF, "pkg/test_doc.py": LC_DOC, "pkg/__init__.py": ""}
    for i in range(3):
        files[f"pkg/test_keep{i}.py"] = LC_DOC.replace("test_one", f"test_k{i}")
    write_tree(root, files)
    docs = [os.path.join(root, "pkg/test_doc.py")] + [os.path.join(root, f"pkg/test_keep{i}.py") for i in range(3)]
    conf = os.path.join(root, "conftest.py")
    srv = LSP(srv_bin(), root, locklog=os.path.join(ctx.scratch_root, "lock_srv.log"))

    def observe(d):
        out = {}
        text = files[os.path.relpath(d, root)]
        lines = text.split("\n")
        l_use = next(i for i, l in enumerate(lines) if l.strip() == "v = fa")
        l_sig = next(i for i, l in enumerate(lines) if l.startswith("def test_") and "(fb, local)" in l)
        diags = [x for x in (srv.diag.get(__import__("vlib.lsp", fromlist=["path_to_uri"]).path_to_uri(d), [(0, [])])[-1][1])]
        reqs = {
            "definition": srv.definition(d, l_sig, lines[l_sig].index("fb")),
            "hover": srv.hover(d, l_sig, lines[l_sig].index("fb")),
            "references": srv.references(d, 3, 4),
            "documentSymbol": srv.document_symbol(d),
            "codeLens": srv.code_lens(d),
            "inlayHint": srv.inlay_hint(d),
            "completion": srv.completion(d, l_use, 8),
            "codeAction": srv.code_action(d, {"start": {"line": l_use, "character": 0}, "end": {"line": l_use, "character": 20}}, diags),
        }
        for k, r in reqs.items():
            if not r["answered"]:
                raise Inconclusive(f"{k} unanswered")
            res = r.get("result")
            if k == "completion" and isinstance(res, dict):
                res = res.get("items")
            if k == "completion" and res:
                res = sorted((it["label"], it.get("detail")) for it in res)
            out[k] = _j.dumps(res, sort_keys=True)
        return out

    def compare(tag, base, now):
        ctx.judged()
        bad = sorted(k for k in base if base[k] != now.get(k))
        if bad:
            ctx.violation({"kind": "answer-changes-after-close-or-eviction", "step": tag, "requests": bad},
                          {k: {"before": base[k][:300], "after": now[k][:300]} for k in bad[:3]}, files=files)
        ctx.nontrivial(("server_close", tag, not bad))

    try:
        srv.initialize()
        for d in docs:
            before = srv.seq
            srv.did_open(d, files[os.path.relpath(d, root)])
            srv.wait_diagnostics(d, before, timeout=20)
        base = {d: observe(d) for d in docs}
        if not base[docs[0]]["codeAction"] or base[docs[0]]["codeAction"] == "null" or base[docs[0]]["codeAction"] == "[]":
            raise Inconclusive("no quick fix offered for the directed document: nothing to compare")
        # the conftest is opened and closed again - the second time through another spelling of its path (a symbolic link)
        before = srv.seq
        srv.did_open(conf, LC_CONF)
        srv.wait_diagnostics(conf, before, timeout=20)
        srv.did_close(conf)
        alias = ctx.scratch(f"alias{h}")
        os.symlink(root, os.path.join(alias, "ws_alias"))
        aconf = os.path.join(alias, "ws_alias", "conftest.py")
        srv.did_open(aconf, LC_CONF)
        srv.hover(docs[0], 6, 14)
        srv.did_close(aconf)
        adoc = os.path.join(alias, "ws_alias", "pkg", "test_keep2.py")
        srv.did_close(docs[3])
        srv.did_open(adoc, files["pkg/test_keep2.py"])
        srv.hover(docs[0], 6, 14)
        srv.did_close(adoc)
        before = srv.seq
        srv.did_open(docs[3], files["pkg/test_keep2.py"])
        srv.wait_diagnostics(docs[3], before, timeout=20)
        for d in docs:
            compare("conftest opened and closed", base[d], observe(d))
        # > 2000 other documents are opened while ours stay open
        for i in range(2300 if h == 0 else 2600):
            srv.did_open(os.path.join(root, f"filler/test_fill_{i}.py"), "def test_f():\n    pass\n")
            if i % 10 == 0:
                srv.pump(0.01)         # keep draining the server's notifications, or both pipes fill up
        srv.document_symbol(docs[0])
        for d in docs:
            compare("2000+ other documents opened", base[d], observe(d))
        # the document itself is closed (its text on disk is the same)
        srv.did_close(docs[0])
        compare("document closed", base[docs[0]], observe(docs[0]))
        ctx.count("server_close_sessions")
    finally:
        un = srv.unanswered()
        srv.shutdown()
        shutil.rmtree(root, ignore_errors=True)
        if un:
            raise Inconclusive("server stopped answering")


def run_eviction(ctx, vh, h):
    """cross the 2000-entry limit; both twins evict (different victims: per-map hash seeds)"""
    root = ctx.scratch(f"e{h}")
    ws = gen.gen_workspace(root, ctx.rng, depth=2, venv=False)
    bulk = {f"bulk/test_bulk_{i}.py": "def test_b():\n    pass\n" for i in range(2100)}
    materialize(ws)
    write_tree(root, bulk)
    order = sorted(ws.workspace_py())
    seq = [{"op": "analyze_fresh", "path": ws.abs(r), "text": ws.files[r]} for r in order]
    seq += [{"op": "analyze_fresh", "path": os.path.join(root, r), "text": t} for r, t in bulk.items()]
    mods = [ws.abs(r) for r in order]
    A = vh.new_db()
    # A: queries before the bulk arrives (warm), then the bulk (eviction), then compare
    vh.call(op="batch", cmds=[dict(c, db=A) for c in seq[:len(order)]], timeout=600)
    vh.call(op="queries", db=A, timeout=600)
    vh.call(op="batch", cmds=[dict(c, db=A) for c in seq[len(order):]], timeout=600)
    B = replay(vh, ws, seq)
    ra = vh.call(op="raw", db=A, timeout=600)
    n_cached = len(ra["file_cache"])
    evicted = [m for m in mods if m not in set(ra["file_cache"])]
    # a database that never crossed the limit: same workspace files, no bulk
    Cc = replay(vh, ws, seq[:len(order)])
    qa = observe(vh, A, ws, mods)
    qb = observe(vh, B, ws, mods)
    qc = observe(vh, Cc, ws, mods)
    ctx.judged(2)
    ctx.count("eviction_runs")
    ctx.count("evicted_workspace_files", len(evicted))
    ctx.extra["file_cache_after_eviction"] = n_cached
    if n_cached >= 2100 + len(order):
        raise Inconclusive("eviction did not happen")

    def proj(q):
        # only the workspace's own files (the bulk has no fixtures)
        q = dict(q)
        q["available"] = {f: v for f, v in q["available"].items() if "/bulk/" not in f}
        return q
    for name, qq in (("evicted-warm-vs-evicted-cold", qb), ("evicted-vs-never-evicted", qc)):
        dd = diff(proj(qa), proj(qq))
        if dd:
            ctx.violation({"kind": name, "first_diff": strip_root(dd[0][0], root)},
                          {"diffs": [(strip_root(p, root), brief(strip_root(x, root)), brief(strip_root(y, root))) for p, x, y in dd[:5]],
                           "evicted": strip_root(evicted, root)}, files=ws.files)
    ctx.nontrivial(("eviction", len(evicted) > 0))
    for d in (A, B, Cc):
        vh.call(op="drop_db", db=d)
    shutil.rmtree(root, ignore_errors=True)


def directed_query_orders(ctx, vh):
    """what one query memoises must not change what a later, independent query answers: directed import layouts in which
    a nested import walk is cut short (cycles, diamonds); the probes are asked in every order on a warm database and each
    answer is compared with a cold database that is asked this one question only"""
    import itertools
    from ..memo_layouts import layouts
    for lay in layouts():
        root = ctx.scratch("memo_" + lay["name"])
        write_tree(root, lay["files"])
        order = sorted(r for r in lay["files"] if r.endswith(".py"))
        seq = [{"op": "analyze_fresh", "path": os.path.join(root, r), "text": lay["files"][r]} for r in order]

        def ask(db, rel):
            p = os.path.join(root, rel)
            conf = os.path.join(os.path.dirname(p), "conftest.py")
            av = vh.call(op="available", db=db, path=p)
            im = vh.call(op="imported", db=db, path=conf)["imported"]
            import json as _j
            return strip_root({"available": sorted(av["available"], key=lambda d: _j.dumps(d, sort_keys=True)), "imported": sorted(im)}, root)

        cold = {}
        for rel in lay["probes"]:
            B = vh.new_db()
            vh.call(op="batch", cmds=[dict(c, db=B) for c in seq])
            cold[rel] = ask(B, rel)
            vh.call(op="drop_db", db=B)
            if os.environ.get("VERIF_DEBUG_MEMO"):
                print("[memo]", lay["name"], rel, cold[rel]["imported"])
        for perm in itertools.permutations(lay["probes"]):
            A = vh.new_db()
            vh.call(op="batch", cmds=[dict(c, db=A) for c in seq])
            for rel in perm:
                got = ask(A, rel)
                ctx.judged()
                if got != cold[rel]:
                    dd = diff(got, cold[rel])
                    ctx.violation({"kind": "answer-depends-on-earlier-queries", "layout": lay["name"], "probe": rel,
                                   "asked_before": list(perm[:perm.index(rel)])},
                                  {"diffs": [(p_, brief(x), brief(y)) for p_, x, y in dd[:4]]}, files=lay["files"])
            ctx.nontrivial(("query_order", lay["name"], perm))
            vh.call(op="drop_db", db=A)
        ctx.count("directed_query_order_layouts")
        shutil.rmtree(root, ignore_errors=True)


def query_before_scan(ctx, vh, h):
    """queries answered before the background scan has run (an editor asks for hints on a just-opened file) must not
    change what the scan indexes afterwards: compare with a database that was only scanned"""
    root = ctx.scratch(f"q{h}")
    ws = gen.gen_workspace(root, ctx.rng, depth=ctx.rng.randint(1, 3), venv=False)
    materialize(ws)
    mods = [ws.abs(r) for r in sorted(ws.workspace_py())]
    A = vh.new_db()
    opened = ctx.rng.sample(mods, min(3, len(mods)))
    for p in opened:
        vh.call(op="analyze", db=A, path=p, text=ws.files[os.path.relpath(p, root)])
    for p in mods:
        vh.call(op="available", db=A, path=p)
        if os.path.basename(p) == "conftest.py":
            vh.call(op="imported", db=A, path=p)
    vh.call(op="queries", db=A, files=mods)
    vh.call(op="scan", db=A, root=root)
    # the opened documents are re-sent afterwards in both databases so that the scan/open interplay (C10) cancels out
    B = vh.new_db()
    vh.call(op="scan", db=B, root=root)
    for d_ in (A, B):
        for p in opened:
            vh.call(op="analyze", db=d_, path=p, text=ws.files[os.path.relpath(p, root)])
    ra = vh.call(op="raw", db=A)
    rb = vh.call(op="raw", db=B)
    ctx.judged()
    ia, ib = set(ra["file_definitions"]) | set(ra["usages"]), set(rb["file_definitions"]) | set(rb["usages"])
    if ia != ib:
        ctx.violation({"kind": "queries-before-scan-change-what-is-indexed", "missing": strip_root(sorted(ib - ia)[:4], root),
                       "extra": strip_root(sorted(ia - ib)[:4], root)}, {"opened": strip_root(opened, root)}, files=ws.files)
    else:
        # same registration order is not guaranteed (parallel scan): compare order-insensitive projections only
        from ..twins import raw_multiset
        ma, mb = raw_multiset(strip_root(ra, root)), raw_multiset(strip_root(rb, root))
        for k_ in ("file_cache",):
            ma.pop(k_, None); mb.pop(k_, None)
        dd = diff(ma, mb)
        if dd:
            ctx.violation({"kind": "queries-before-scan-change-the-index", "first_diff": dd[0][0]},
                          {"diffs": [(p_, brief(x), brief(y)) for p_, x, y in dd[:4]]}, files=ws.files)
    ctx.nontrivial(("query_before_scan", len(opened)))
    vh.call(op="drop_db", db=A); vh.call(op="drop_db", db=B)
    shutil.rmtree(root, ignore_errors=True)


CQ_CONF1 = "import pytest\n\n\n@pytest.fixture\ndef db() -> \"Sqlite\":\n    return 1\n\n@pytest.fixture\ndef a(b):\n    return 1\n\n@pytest.fixture\ndef b():\n    return 1\n"
CQ_CONF2 = "import pytest\n\n\n\n\n\n@pytest.fixture\ndef db() -> \"Postgres\":\n    return 2\n\n@pytest.fixture\ndef a(b):\n    return 1\n\n@pytest.fixture\ndef b(a):\n    return 1\n\n@pytest.fixture\ndef extra():\n    return 3\n"
CQ_TEST = "def test_t(db, a):\n    pass\n"


def concurrent_query_vs_analysis(ctx, vh, count):
    """a query that computes (and memoises) an answer while an analysis of another file completes: after quiescence the
    memoised answer must be the one a cold database gives.  Interleavings come from the serialising scheduler."""
    D = "/vf_c07/pkg"
    conf, test = f"{D}/conftest.py", f"{D}/test_t.py"
    setup = [{"op": "analyze", "db": 0, "path": conf, "text": CQ_CONF1}, {"op": "analyze", "db": 0, "path": test, "text": CQ_TEST}]
    threads = [[{"op": "analyze", "db": 0, "path": conf, "text": CQ_CONF2}],
               [{"op": "available", "db": 0, "path": test}, {"op": "cycles", "db": 0}, {"op": "imported", "db": 0, "path": conf}],
               [{"op": "cycles", "db": 0}, {"op": "available", "db": 0, "path": conf}]]
    after = [{"op": "available", "db": 0, "path": test, "observe": True}, {"op": "cycles", "db": 0, "observe": True},
             {"op": "available", "db": 0, "path": conf, "observe": True}]
    for variant, new_conf in (("edit_records_definitions", CQ_CONF2), ("edit_only_removes_definitions", "# all fixtures removed\nX = 1\n")):
        threads[0] = [{"op": "analyze", "db": 0, "path": conf, "text": new_conf}]
        _concurrent_variant(ctx, vh, count, setup, threads, after, variant)


def _concurrent_variant(ctx, vh, count, setup, threads, after, variant):
    ref = vh.call(op="sched_scenario", setup=setup, threads=threads, after=after, seed=0, count=1, sequential=[0, 1, 2])
    want = {o["index"] for o in ref["outcomes"]}
    for mode, pct in (("uniform", None), ("pct2", 2)):
        r = vh.call(op="sched_scenario", setup=setup, threads=threads, after=after, seed=ctx.seed * 31 + 7, count=count, pct=pct, est=200,
                    timeout=1800)
        if isinstance(r, dict) and r.get("sched_deadlock"):
            ctx.violation({"kind": "deadlock-under-scheduler", "where": "c07"}, {"detail": str(r.get("detail", ""))[:1500]})
            break
        ctx.judged(count)
        ctx.extra["concurrent_query_schedules"] = ctx.extra.get("concurrent_query_schedules", 0) + r["distinct_schedules"]
        for o in r["outcomes"]:
            obs = o["index"].split(";;OBS=", 1)[-1]
            if o["index"] not in want:
                # cycle lists are compared as normalised sets elsewhere; here the texts must match the cold answer
                wobs = sorted(w.split(";;OBS=", 1)[-1] for w in want)[0]
                if _norm_obs(obs) != _norm_obs(wobs):
                    ctx.violation({"kind": "memoised-answer-after-concurrent-analysis-is-stale", "mode": mode, "variant": variant},
                                  {"seed": o["first_seed"], "count": o["count"], "observed": obs[:600], "cold": wobs[:600]})
        ctx.nontrivial(("concurrent_query", variant, mode, r["distinct_schedules"] > 10))


def _norm_obs(obs):
    import json as _j
    out = []
    for part in obs.split("|{"):
        part = part if part.startswith("{") else "{" + part
        try:
            v = _j.loads(part)
        except Exception:
            out.append(part)
            continue
        if "cycles" in v:
            from ..twins import norm_cycle_path
            out.append(sorted(str(norm_cycle_path(c["path"])) for c in v["cycles"]))
        elif "available" in v:
            out.append(sorted((a["name"], a["file"], a["line"], a.get("return_type")) for a in v["available"]))
        else:
            out.append(v)
    return out
