"""C15 — reported positions identify exactly the right tokens.

Monitor: reference-model monitor on the real server.  Every Location / Range in the responses to
references, documentSymbol, workspace/symbol, publishDiagnostics, inlayHint, call hierarchy and
codeLens for generated sources (tabs, CRLF, non-ASCII text before tokens, every string-literal form)
is compared with CPython's own token table converted to UTF-16 columns, and checked against the
structural LSP rules (inside the document, start <= end, selectionRange inside range, no duplicates).
"""
import ast, os, shutil

from .. import srcgen
from ..common import Inconclusive, write_tree
from ..lsp import LSP, uri_to_path, path_to_uri
from ..pymodel import FileModel, utf16_len
from ..runner import srv_bin

KF_BYTES = "KF-C15-byte-columns-reported-as-utf16"
KF_STR = "KF-C15-string-literal-span-assumes-one-char-quotes"
KF_MULTI = "KF-C15-indirect-true-multi-name-span"
KF_CH_RANGE = "KF-C15-call-hierarchy-range-is-a-point"
KF_SYM_1LINE = "KF-C15-symbol-range-ends-at-column-0"
KF_OUT_FIRST = "KF-C15-outgoing-from-range-first-textual-match"


class Doc:
    def __init__(self, path, text):
        self.path = path
        self.text = text
        self.m = FileModel(text, path)
        self.lines = text.splitlines()
        self.n_lines = len(text.splitlines()) + (1 if text.endswith(("\n", "\r")) else 0)

    def line_u16(self, l0):
        return utf16_len(self.lines[l0]) if 0 <= l0 < len(self.lines) else 0

    def has_non_ascii_before(self, line1, bcol):
        if not (1 <= line1 <= len(self.m.lt.blines)):
            return False
        b = self.m.lt.blines[line1 - 1][:bcol]
        return any(c >= 0x80 for c in b)

    def non_ascii_line(self, line1):
        if not (1 <= line1 <= len(self.m.lt.blines)):
            return False
        return any(c >= 0x80 for c in self.m.lt.blines[line1 - 1])


def rng_tuple(r):
    return (r["start"]["line"], r["start"]["character"], r["end"]["line"], r["end"]["character"])


def structural(ctx, doc, r, what, files):
    sl, sc, el, ec = rng_tuple(r)
    bad = None
    if (sl, sc) > (el, ec):
        bad = "start-after-end"
    elif el >= doc.n_lines or sl >= doc.n_lines:       # lines are 0 .. n_lines-1 (the last one may be empty)
        bad = "line-outside-document"
    else:
        for (l, c) in ((sl, sc), (el, ec)):
            if l < len(doc.lines) and c > doc.line_u16(l):
                # byte columns on a non-ASCII line may exceed the UTF-16 length: attributed to the byte-column finding
                if doc.non_ascii_line(l + 1) and c <= len(doc.m.lt.blines[l].rstrip(b"\r\n")) and ctx.known(KF_BYTES):
                    continue
                bad = "column-past-end-of-line"
            elif l >= len(doc.lines) and c != 0:
                bad = "column-on-nonexistent-line"
    ctx.judged()
    if bad:
        ctx.violation({"kind": "structural:" + bad, "what": what}, {"range": r, "file": os.path.basename(doc.path)}, files=files)
        return False
    return True


def inside(inner, outer):
    isl, isc, iel, iec = rng_tuple(inner)
    osl, osc, oel, oec = rng_tuple(outer)
    return (osl, osc) <= (isl, isc) and (iel, iec) <= (oel, oec)


def token_match(ctx, doc, r, exp_spans, what, files, usage_meta=None):
    """r must equal one expected (line1, start_u16, end_u16); known findings: byte columns, string spans"""
    sl, sc, el, ec = rng_tuple(r)
    ctx.judged()
    for sp in exp_spans:
        if (sl + 1, sc, el + 1, ec) == (sp["line"], sp["start_u16"], sp["line"], sp["end_u16"]):
            return True
    for sp in exp_spans:
        if sl + 1 != sp["line"]:
            continue
        if (sc, ec) == (sp["start_b"], sp["end_b"]) and doc.has_non_ascii_before(sp["line"], sp["end_b"]) and ctx.known(KF_BYTES):
            return True
        if sp.get("string"):
            ns, ne = sp["node_start_b"] + 1, sp["node_end_b"] - 1
            if not sp.get("plain_string", True) and (sc, ec) == (ns, ne) and ctx.known(KF_STR):
                return True
            if not sp.get("exact_span", True) and (sc, ec) == (ns, ne) and ctx.known(KF_MULTI):
                return True
            if not sp.get("plain_string", True) and sp.get("node_end_line") != sp["line"] and ctx.known(KF_STR):
                return True
    ctx.violation({"kind": "range-is-not-the-token", "what": what},
                  {"range": r, "file": os.path.basename(doc.path),
                   "expected_on_line": [(s["line"], s["start_u16"], s["end_u16"], s.get("name")) for s in exp_spans if s["line"] == sl + 1][:6],
                   "line_text": doc.lines[sl] if sl < len(doc.lines) else None}, files=files)
    return False


def body_name_spans(doc):
    """every Name node inside function bodies: candidates for undeclared-fixture diagnostics"""
    out = []
    for n in ast.walk(doc.m.tree):
        if isinstance(n, ast.Name):
            out.append({"name": n.id, "line": n.lineno, "start_b": n.col_offset, "end_b": n.end_col_offset,
                        "start_u16": doc.m.lt.byte_to_utf16(n.lineno, n.col_offset),
                        "end_u16": doc.m.lt.byte_to_utf16(n.lineno, n.end_col_offset)})
    return out


def run(ctx):
    quick = ctx.tier == "quick"
    n = 40 if quick else 1500
    ctx.rule = ("generated sources (decorated/async/class-nested/multi-line/annotated signatures, all parameter kinds, every "
                "string-literal form in marks, tabs, CRLF, non-ASCII text before tokens) served by the real server; every "
                "returned Range judged structurally and against CPython token spans in UTF-16; distinct = generator feature "
                "tokens x response kinds")
    pinned(ctx)
    if os.environ.get("VERIF_ONLY_PINNED"):
        return
    for i in range(n):
        root = ctx.scratch(f"w{i}")
        s1 = srcgen.gen_source(ctx.rng, unicode_noise=0.5 if i % 2 == 0 else 0.0, plain_strings=(i % 3 != 0))
        conf = s1.text()
        s2 = srcgen.gen_source(ctx.rng, unicode_noise=0.5 if i % 2 == 0 else 0.0, plain_strings=(i % 3 != 0))
        # make the test module use the conftest's fixtures, with undeclared body uses for diagnostics
        s2.fixture_names = list(s1.fixture_names) + s2.fixture_names
        for _ in range(3):
            srcgen.gen_test(s2, plain_strings=(i % 3 != 0))
        if s1.fixture_names:
            f0 = s1.fixture_names[0]
            noise = "é = 'ü'; " if i % 2 == 0 else ""
            s2.emit(f"def test_body_use():\n    {noise}v = {f0}; w = [{f0}, {f0}.attr]\n    return {f0}(1)\n")
        if s1.fixture_names and i % 4 == 3:
            # the document ends inside a fixture, without a line terminator
            s2.emit(f"@pytest.fixture\ndef last_fx({s1.fixture_names[0]}):\n    return {s1.fixture_names[0]}")
        test = s2.text()
        if i % 4 == 3:
            test = test.rstrip("\r\n")
        files = {"conftest.py": conf, "test_mod.py": test}
        if s1.fixture_names:
            # a module that records no fixture usage at all, only undeclared uses in a body
            f0 = s1.fixture_names[0]
            files["test_nousage.py"] = f"import os\n\n\ndef test_plain():\n    v = {f0}\n    return {f0}.x\n"
        try:
            for t in files.values():
                compile(t, "<src>", "exec", dont_inherit=True)
        except Exception:
            ctx.count("skipped_outside_grammar")
            continue
        write_tree(root, files)
        docs = {os.path.join(root, r): Doc(os.path.join(root, r), t) for r, t in files.items()}
        if not all(d.m.ok for d in docs.values()):
            ctx.count("skipped_outside_grammar")
            continue
        feats = s1.features | s2.features
        one_workspace(ctx, root, docs, files, feats)
        ctx.sample({"features": sorted(feats)[:25], "test_mod.py": test[:800]})
        shutil.rmtree(root, ignore_errors=True)


def one_workspace(ctx, root, docs, files, feats):
    srv = LSP(srv_bin(), root, locklog=os.path.join(ctx.scratch_root, "lock_srv.log"))
    try:
        srv.initialize()
        if not any("scan complete" in l for l in srv.logs):
            raise Inconclusive("scan did not complete")
        if any("Failed" in l for l in srv.logs):
            pass
        all_usage_spans = {p: [dict(u) for u in d.m.usages] for p, d in docs.items()}
        def_lines = {p: {dd["line"] for dd in d.m.defs} for p, d in docs.items()}
        for p, d in docs.items():
            check_doc(ctx, srv, p, d, docs, files, all_usage_spans, def_lines, first=True)
        # same-length re-analysis: swap a blank line with its non-blank neighbour (byte length unchanged,
        # newline offsets moved) and judge every position again on the new text
        for p in list(docs):
            d = docs[p]
            ls = d.text.split("\n")
            idx = [i for i in range(len(ls) - 1) if ls[i].strip() == "" and ls[i + 1].strip() != "" and not ls[i + 1].startswith((" ", "\t", ")"))
                   and (i == 0 or not ls[i - 1].rstrip().endswith(("(", ",", "\\")))]
            if not idx:
                continue
            i = ctx.rng.choice(idx)
            ls[i], ls[i + 1] = ls[i + 1], ls[i]
            nt = "\n".join(ls)
            try:
                compile(nt, "<src>", "exec", dont_inherit=True)
            except Exception:
                continue
            nd = Doc(p, nt)
            if not nd.m.ok or len(nt.encode()) != len(d.text.encode()):
                continue
            docs[p] = nd
            files = dict(files); files[os.path.basename(p)] = nt
            all_usage_spans[p] = [dict(u) for u in nd.m.usages]
            def_lines[p] = {dd["line"] for dd in nd.m.defs}
            check_doc(ctx, srv, p, nd, docs, files, all_usage_spans, def_lines, first=False)
            ctx.nontrivial(("same_length_reanalysis",))
        # --- workspace symbols --------------------------------------------------------------------------------
        r = srv.workspace_symbol("")
        syms = r.get("result") or []
        lst = [(s_["name"], s_["location"]["uri"], str(s_["location"]["range"])) for s_ in syms]
        if len(lst) != len(set(lst)):
            ctx.violation({"kind": "duplicate-workspace-symbols"}, {"symbols": lst[:10]}, files=files)
        for s_ in syms:
            tp = uri_to_path(s_["location"]["uri"])
            if tp in docs:
                dd_ = docs[tp]
                if structural(ctx, dd_, s_["location"]["range"], "workspace/symbol", files):
                    token_match(ctx, dd_, s_["location"]["range"], [x["name_span"] | {"line": x["line"]} for x in dd_.m.defs if x["name_span"]],
                                "workspace/symbol", files)
        for f in feats:
            ctx.nontrivial(f)
        ctx.count("workspaces")
    finally:
        un = srv.unanswered()
        srv.shutdown()
        if un:
            raise Inconclusive("server stopped answering (C11 territory)")


def check_doc(ctx, srv, p, d, docs, files, all_usage_spans, def_lines, first=True):
    if True:
        before = srv.seq
        (srv.did_open if first else srv.did_change)(p, d.text)
        diags = srv.wait_diagnostics(p, before, timeout=30)
        if diags is None:
            raise Inconclusive("no diagnostics published")
        # --- diagnostics --------------------------------------------------------------------------
        names = body_name_spans(d)
        seen = set()
        for dg in diags:
            if not structural(ctx, d, dg["range"], "diagnostic:" + str(dg.get("code")), files):
                continue
            key = (dg.get("code"), str(dg["range"]), dg["message"])
            if key in seen:
                ctx.violation({"kind": "duplicate-diagnostic"}, {"diag": dg}, files=files)
            seen.add(key)
            if dg.get("code") == "undeclared-fixture":
                token_match(ctx, d, dg["range"], names, "diagnostic:undeclared", files)
                ctx.nontrivial(("diag_undeclared",))
            else:
                token_match(ctx, d, dg["range"], [dd["name_span"] | {"line": dd["line"]} for dd in d.m.defs if dd["name_span"]],
                            "diagnostic:" + str(dg.get("code")), files)
        # --- documentSymbol -------------------------------------------------------------------------
        r = srv.document_symbol(p)
        syms = r.get("result") or []
        lst = [(s_["name"], str(s_["range"])) for s_ in syms]
        if len(lst) != len(set(lst)):
            ctx.violation({"kind": "duplicate-symbols"}, {"symbols": lst}, files=files)
        for s_ in syms:
            if structural(ctx, d, s_["range"], "documentSymbol.range", files) and \
                    structural(ctx, d, s_["selectionRange"], "documentSymbol.selectionRange", files):
                ctx.judged()
                if not inside(s_["selectionRange"], s_["range"]):
                    sl = s_["range"]["start"]["line"]
                    if s_["range"]["end"]["line"] == sl and s_["range"]["end"]["character"] == 0 and ctx.known(KF_SYM_1LINE):
                        pass
                    else:
                        ctx.violation({"kind": "selectionRange-outside-range", "what": "documentSymbol"}, {"symbol": s_}, files=files)
                token_match(ctx, d, s_["selectionRange"], [dd["name_span"] | {"line": dd["line"]} for dd in d.m.defs if dd["name_span"]],
                            "documentSymbol.selectionRange", files)
        # --- codeLens ----------------------------------------------------------------------------------
        r = srv.code_lens(p)
        for l_ in (r.get("result") or []):
            structural(ctx, d, l_["range"], "codeLens", files)
            ctx.judged()
            if l_["range"]["start"]["line"] + 1 not in def_lines[p]:
                ctx.violation({"kind": "code-lens-not-on-definition-line"}, {"lens": l_}, files=files)
        # --- inlay hints ---------------------------------------------------------------------------------
        r = srv.inlay_hint(p)
        for h in (r.get("result") or []):
            pos = h["position"]
            rr = {"start": pos, "end": pos}
            if not structural(ctx, d, rr, "inlayHint.position", files):
                continue
            ends = []
            for u in d.m.usages:
                e_ = {"line": u["line"], "start_u16": u["end_u16"], "end_u16": u["end_u16"], "start_b": u["end_b"], "end_b": u["end_b"]}
                if u.get("string"):
                    # anchor after the string content; the literal-geometry finding applies to its end as well
                    e_.update({"string": True, "plain_string": u.get("plain_string", True), "exact_span": u.get("exact_span", True),
                               "node_start_b": u["node_end_b"] - 2, "node_end_b": u["node_end_b"], "node_end_line": u.get("node_end_line")})
                ends.append(e_)
            token_match(ctx, d, rr, ends, "inlayHint.position", files)
            ctx.nontrivial(("inlay",))
        # --- references / hierarchy from every definition and usage --------------------------------------
        for dd in d.m.defs:
            if not dd["name_span"]:
                continue
            col = dd["name_span"]["start_b"]     # cursor columns are interpreted by the server as it sees fit
            refs_and_hierarchy(ctx, srv, d, docs, p, dd["line"] - 1, col, all_usage_spans, def_lines, files)
        for u in d.m.usages[:12]:
            if d.has_non_ascii_before(u["line"], u["start_b"]):
                continue
            r = srv.definition(p, u["line"] - 1, u["start_b"])
            res = r.get("result")
            if res:
                res = res[0] if isinstance(res, list) else res
                tp = uri_to_path(res["uri"])
                ctx.judged()
                if tp in docs:
                    structural(ctx, docs[tp], res["range"], "definition.target", files)
                    if res["range"]["start"]["line"] + 1 not in def_lines[tp]:
                        ctx.violation({"kind": "definition-target-not-on-def-line"}, {"target": res}, files=files)
            r = srv.implementation(p, u["line"] - 1, u["start_b"])
            res = r.get("result")
            if res:
                res = res[0] if isinstance(res, list) else res
                tp = uri_to_path(res["uri"])
                ctx.judged()
                if tp in docs:
                    ok_lines = def_lines[tp] | {x["yield_line"] for x in docs[tp].m.defs if x["yield_line"]}
                    if res["range"]["start"]["line"] + 1 not in ok_lines:
                        ctx.violation({"kind": "implementation-target-not-on-def-or-yield-line"}, {"target": res}, files=files)


def refs_and_hierarchy(ctx, srv, d, docs, p, line0, col, all_usage_spans, def_lines, files):
    r = srv.references(p, line0, col)
    locs = r.get("result") or []
    keyl = [(x["uri"], str(x["range"])) for x in locs]
    if len(keyl) != len(set(keyl)):
        ctx.violation({"kind": "duplicate-reference-locations"}, {"locations": keyl[:10]}, files=files)
    for x in locs:
        tp = uri_to_path(x["uri"])
        if tp not in docs:
            continue
        td = docs[tp]
        if not structural(ctx, td, x["range"], "references", files):
            continue
        sl, sc, el, ec = rng_tuple(x["range"])
        if (sc, ec) == (0, 0) and sl + 1 in def_lines[tp]:
            continue      # the declaration entry: a point on the definition line
        token_match(ctx, td, x["range"], all_usage_spans[tp], "references", files)
    pr = srv.prepare_call_hierarchy(p, line0, col)
    for it in (pr.get("result") or []):
        tp = uri_to_path(it["uri"])
        if tp not in docs:
            continue
        td = docs[tp]
        if structural(ctx, td, it["range"], "callHierarchy.range", files) and structural(ctx, td, it["selectionRange"], "callHierarchy.selectionRange", files):
            ctx.judged()
            if not inside(it["selectionRange"], it["range"]):
                if it["range"]["start"] == it["range"]["end"] and it["range"]["start"]["character"] == 0 and ctx.known(KF_CH_RANGE):
                    pass
                else:
                    ctx.violation({"kind": "selectionRange-outside-range", "what": "callHierarchyItem"}, {"item": it}, files=files)
            token_match(ctx, td, it["selectionRange"], [x["name_span"] | {"line": x["line"]} for x in td.m.defs if x["name_span"]],
                        "callHierarchy.selectionRange", files)
        inc = srv.incoming(it)
        for c in (inc.get("result") or []):
            fp = uri_to_path(c["from"]["uri"])
            if fp in docs:
                for fr in c["fromRanges"]:
                    if structural(ctx, docs[fp], fr, "incomingCalls.fromRanges", files):
                        token_match(ctx, docs[fp], fr, all_usage_spans[fp], "incomingCalls.fromRanges", files)
        out = srv.outgoing(it)
        for c in (out.get("result") or []):
            for fr in c["fromRanges"]:
                if structural(ctx, td, fr, "outgoingCalls.fromRanges", files):
                    sl, sc, el, ec = rng_tuple(fr)
                    # must be a parameter token of the fixture, or (fallback) the dependency's name
                    cands = [u for u in all_usage_spans[tp] if u["kind"] == "fixture_param"]
                    ctx.judged()
                    hit = any((sl + 1, sc, ec) == (u["line"], u["start_u16"], u["end_u16"]) for u in cands)
                    if not hit:
                        line_txt = td.lines[sl] if sl < len(td.lines) else ""
                        nm = c["to"]["name"]
                        first = line_txt.find(nm)
                        tp2 = uri_to_path(c["to"]["uri"])
                        if first >= 0 and (sc, ec) == (len(line_txt[:first].encode()), len(line_txt[:first].encode()) + len(nm.encode())) \
                                and ctx.known(KF_OUT_FIRST):
                            continue
                        if fr == c["to"]["selectionRange"] and ctx.known(KF_OUT_FIRST):
                            continue
                        ctx.violation({"kind": "range-is-not-the-token", "what": "outgoingCalls.fromRanges"},
                                      {"range": fr, "line_text": line_txt, "to": nm}, files=files)


def pinned(ctx):
    from ..witness import WITNESS
    files = WITNESS["KF-C15"]["files"]
    root = ctx.scratch("pinned")
    write_tree(root, files)
    docs = {os.path.join(root, r): Doc(os.path.join(root, r), t) for r, t in files.items()}
    one_workspace(ctx, root, docs, files, {"pinned_witness"})
    shutil.rmtree(root, ignore_errors=True)
