"""C17 — undeclared-fixture warnings are precise and their quick fix works.

Monitor: generator ground truth + round trip through CPython on the real server.  Generated test modules
(function shapes x body forms x binding forms) carry, for every use site of a name, a label: must be
flagged / must not be flagged / not pinned by the statement.  publishDiagnostics(undeclared-fixture) is
compared with the labels at exact token positions.  Every offered quick fix and every parameter edit
attached to a body completion is applied to the text, re-parsed with CPython (target function gained the
parameter, every other function unchanged) and fed back; the warning must be gone.
"""
import ast, os, shutil

from ..common import Inconclusive, write_tree
from ..lsp import LSP
from ..pymodel import utf16_len
from ..runner import srv_bin

KF_INSERT = "KF-C17-parameter-insertion-by-text-search"

HDR = "import pytest\n\n"
VISIBLE = ["fa", "fb", "fc", "settings"]       # defined in conftest.py
INVISIBLE = ["inv_sibling", "inv_prefix", "nowhere"]   # sibling conftest / conftest of a sibling whose directory name is a string prefix of ours / not defined at all

USE_FORMS = [        # (template, label) ; {n} is the name
    ("{n}()", "must"), ("call({n})", "must"), ("call(1, {n}, 2)", "must"), ("{n}.attr", "must"), ("{n}.m(1)", "must"),
    ("{n} + 1", "must"), ("1 - {n}", "must"), ("-{n}", "must"), ("{n}[0]", "must"), ("d[{n}]", "must"),
    ("[{n}, 1]", "must"), ("({n}, 2)", "must"), ("{{1: {n}}}", "must"), ("{{{n}: 1}}", "must"), ("{n} == 3", "must"),
    ("x = {n}", "must"), ("x = call({n}.a)", "must"), ("return {n}", "must"), ("assert {n}", "must"), ("assert x, {n}", "must"),
    ("y += {n}", "must"), ("assert {n}.lo < {n}.hi", "must2"), ("call({n}, {n})", "must2"), ("x = {n}.a\n{n} = 5", "must"), ("call({n})\nfor {n} in range(2):\n    pass", "must"),
    # forms the statement does not pin
    ("call(k={n})", "any"), ("lambda: {n}", "any"), ("[i for i in {n}]", "any"), ("f'{{{n}}}'", "any"), ("x if {n} else 1", "any"),
    ("call(*{n})", "any"), ("not {n}", "must"), ("{n} and x", "any"), ("print({n}) if 1 else 2", "any"), ("{{{n}}}", "any"),
    ("yield {n}", "any"), ("z: int = {n}", "any"), ("del {n}", "any"), ("raise {n}", "any"),
]
BLOCK_FORMS = [      # statement wrappers: ({stmt} placed inside)
    "{stmt}", "if cond:\n    {stmt}", "for i in range(2):\n    {stmt}", "while cond:\n    {stmt}\n    break",
    "with ctx() as c:\n    {stmt}", "if a:\n    pass\nelse:\n    {stmt}",
]
COND_FORMS = [("if {n}:\n    pass", "must"), ("while {n}:\n    break", "must"), ("for i in {n}:\n    pass", "must"),
              ("with {n} as w:\n    pass", "must"), ("with {n}:\n    pass", "must")]
BIND_FORMS = ["{n} = 1", "{n}: int = 1", "{n} += 1", "for {n} in range(2):\n    pass", "with ctx() as {n}:\n    pass",
              "{n}, other = 1, 2", "[{n}, o2] = 1, 2"]
BIND_ANY = ["import {n}", "try:\n    pass\nexcept E as {n}:\n    pass", "def {n}():\n    pass", "({n} := 5)", "global {n}"]


def indent(s, n):
    pad = " " * n
    return "\n".join(pad + l if l else l for l in s.split("\n"))


class Gen:
    def __init__(self, rng):
        self.rng = rng
        self.lines = []
        self.sites = []      # dict(line0, col_b, name, label, func)
        self.funcs = []      # dict(name, line0, shape)
        self.k = 0

    def emit(self, s):
        for l in s.split("\n"):
            self.lines.append(l)

    def line_no(self):
        return len(self.lines)

    def add_stmt(self, stmt, name, label, func, ind, all_occurrences=False):
        """emit stmt (may be multi-line) and record the first occurrence of name in it as a site"""
        base = self.line_no()
        txt = indent(stmt, ind)
        for i, l in enumerate(txt.split("\n")):
            self.lines.append(l)
        # locate the token: first whole-word occurrence
        import re
        for i, l in enumerate(txt.split("\n")):
            ms = list(re.finditer(r"(?<![\w.])" + re.escape(name) + r"(?!\w)", l))
            if ms:
                for m in (ms if all_occurrences else ms[:1]):
                    self.sites.append({"line0": base + i, "col_b": len(l[:m.start()].encode()), "name": name, "label": label, "func": func})
                return
        raise AssertionError("name not found in stmt")


def gen_doc(rng):
    g = Gen(rng)
    g.emit("import pytest")
    g.emit("import os, sys")
    module_level = set()
    if rng.random() < 0.5:
        g.emit("import settings")          # a module-level name that is also a fixture name
        module_level.add("settings")
    if rng.random() < 0.3:
        g.emit("from helpers import fb")
        module_level.add("fb")
    if rng.random() < 0.3:
        g.emit("fc = object()")
        module_level.add("fc")
    g.emit("")
    n_funcs = rng.randint(2, 5)
    for fi in range(n_funcs):
        g.k += 1
        kind = rng.choice(["test", "test", "fixture", "method", "helper"])
        is_async = rng.random() < 0.2
        fname = {"test": f"test_f{g.k}", "fixture": f"fixt{g.k}", "method": f"test_m{g.k}", "helper": f"helper{g.k}"}[kind]
        declared = [n for n in VISIBLE if rng.random() < 0.25]
        params = (["self"] if kind == "method" else []) + [p + (": int" if rng.random() < 0.3 else "") for p in declared]
        if rng.random() < 0.2:
            params.append("opt=None")
        if rng.random() < 0.15:
            params.append("*args")
        shape = rng.choice(["single", "single", "single_ret", "multi", "multi_trailing", "multi_ret", "multi_first_line", "multi_close_only"])
        ret = " -> None" if "ret" in shape else ""
        ind = 4 if kind == "method" else 0
        if kind == "method":
            g.emit(f"class TestK{g.k}:")
        public = None
        if kind == "fixture":
            if rng.random() < 0.3:
                # published under another name: inside the body that name is an ordinary (undeclared) fixture name
                public = rng.choice(VISIBLE)
                g.emit(indent(f'@pytest.fixture(name="{public}")', ind))
            else:
                g.emit(indent(rng.choice(["@pytest.fixture", "@pytest.fixture(scope=\"module\")"]), ind))
        elif rng.random() < 0.2:
            g.emit(indent("@pytest.mark.slow", ind))
        d = "async def" if is_async else "def"
        fline = g.line_no()
        if shape.startswith("multi") and params:
            if shape == "multi_close_only":
                g.emit(indent(f"{d} {fname}({', '.join(params)}", ind))
                g.emit(indent(f"){ret}:", ind))
            elif shape == "multi_first_line":
                g.emit(indent(f"{d} {fname}({params[0]},", ind))
                for p in params[1:]:
                    g.emit(indent(f"    {p},", ind))
                if g.lines[-1].endswith(",") and rng.random() < 0.5:
                    g.lines[-1] = g.lines[-1][:-1]
                g.emit(indent(f"){ret}:", ind))
            else:
                g.emit(indent(f"{d} {fname}(", ind))
                for i, p in enumerate(params):
                    last = i == len(params) - 1
                    g.emit(indent(f"    {p}" + ("," if (not last or shape == "multi_trailing") else ""), ind))
                g.emit(indent(f"){ret}:", ind))
        else:
            if shape.startswith("multi"):
                shape = "single" + ("_ret" if ret else "")
            g.emit(indent(f"{d} {fname}({', '.join(params)}){ret}:", ind))
        sig_text = "\n".join(g.lines[fline:])
        before_close = sig_text[:sig_text.rfind(")")].rstrip()
        if rng.random() < 0.2:
            # a trailing comment with parentheses / a colon after the signature's own "):"
            g.lines[-1] += rng.choice(["  # regression (issue 12)", "  # type: (int) -> None", "  # see: notes (a, b):"])
            shape = shape + "+comment"
        g.funcs.append({"name": fname, "line0": fline, "shape": shape, "kind": kind, "declared": declared,
                        # signatures on which the textual insertion is known to fail (recorded finding)
                        "simple": not (bool(ret) or before_close.endswith(",") or any("=" in p_ for p_ in params))})
        bi = ind + 4
        if rng.random() < 0.3:
            g.emit(indent('"""Doc mentioning fa and fb."""', bi))
        g.emit(indent("cond = a = x = y = 1", bi))
        scan = kind in ("test", "fixture", "method")
        local_bound = {}
        for _ in range(rng.randint(1, 5)):
            name = rng.choice(VISIBLE + INVISIBLE + ["os", "plainlocal"])
            if public and public not in declared and rng.random() < 0.5:
                name = public
            r = rng.random()
            if r < 0.2 and name not in local_bound:
                form = rng.choice(BIND_FORMS + BIND_ANY)
                strong = form in BIND_FORMS
                g.emit(indent(form.format(n=name), bi))
                local_bound.setdefault(name, ("strong" if strong else "weak", g.line_no()))
                continue
            if r < 0.35:
                tmpl, lab = rng.choice(COND_FORMS)
                stmt = tmpl.format(n=name)
            else:
                tmpl, lab = rng.choice(USE_FORMS)
                if name in local_bound and local_bound[name][0] == "strong" and rng.random() < 0.5:
                    # a local bound earlier, used, and bound again afterwards
                    tmpl, lab = rng.choice([("x = {n}.a\n{n} = 5", "must"), ("call({n})\nfor {n} in range(2):\n    pass", "must")])
                if is_async and rng.random() < 0.1:
                    tmpl, lab = "await {n}", "must"
                stmt = rng.choice(BLOCK_FORMS).format(stmt=tmpl.format(n=name)) if rng.random() < 0.4 else tmpl.format(n=name)
                stmt = stmt.replace("\n    ", "\n" + "    ") if "\n" in stmt else stmt
            # ---- label -----------------------------------------------------------------------------------------
            if not scan:
                label = "never"
            elif name in declared or name in ("self",):
                label = "never"
            elif name in module_level or name in ("os", "sys", "pytest"):
                label = "never"
            elif name not in VISIBLE:
                label = "never"
            elif name == fname:
                label = "any"
            elif name in local_bound:
                label = "never" if local_bound[name][0] == "strong" else "any"
            else:
                label = lab
            if "yield" in stmt and kind != "fixture":
                continue
            if "return" in stmt and rng.random() < 0.5:
                pass
            # nested indentation inside block forms
            both = label == "must2" or lab == "must2"
            if label == "must2":
                label = "must"
            g.add_stmt(stmt, name, label, fname, bi, all_occurrences=both)
            if "\n" + name + " = 5" in stmt or "\nfor " + name + " in" in stmt:
                local_bound.setdefault(name, ("strong", g.line_no()))
            if stmt.startswith("return") or stmt.startswith("raise"):
                break
        g.emit(indent("pass", bi))
        g.emit("")
    return g


def directed_doc(rng):
    """a local bound before its use and bound AGAIN after it (both uses are of the local, never of the fixture)"""
    g = Gen(rng)
    g.emit("import pytest")
    g.emit("")
    fline = g.line_no()
    g.emit("def test_directed(fb):")
    g.funcs.append({"name": "test_directed", "line0": fline, "shape": "single", "kind": "test", "declared": ["fb"], "simple": True})
    g.emit("    fa = 1")
    g.add_stmt("call(fa)", "fa", "never", "test_directed", 4)
    g.emit("    for fa in range(2):\n        pass")
    g.emit("    with ctx() as settings:\n        pass")
    g.add_stmt("call(settings)", "settings", "never", "test_directed", 4)
    g.emit("    settings = 2")
    g.add_stmt("x = fc.a", "fc", "must", "test_directed", 4)
    g.emit("    pass")
    g.emit("")
    # the closing parenthesis alone on its line (the parameter edit has to look back for the comma decision)
    fline = g.line_no()
    g.emit("def test_close_only(fb")
    g.emit("):")
    g.funcs.append({"name": "test_close_only", "line0": fline, "shape": "multi_close_only", "kind": "test", "declared": ["fb"], "simple": True})
    g.add_stmt("y = fa.b", "fa", "must", "test_close_only", 4)
    g.emit("    pass")
    g.emit("")
    fline = g.line_no()
    g.emit("def test_close_only2(")
    g.emit("    fb,")
    g.emit("    fc")
    g.emit("):")
    g.funcs.append({"name": "test_close_only2", "line0": fline, "shape": "multi", "kind": "test", "declared": ["fb", "fc"], "simple": True})
    g.add_stmt("z = call(fa)", "fa", "must", "test_close_only2", 4)
    g.add_stmt("assert fa.lo < fa.hi", "fa", "must", "test_close_only2", 4, all_occurrences=True)
    g.emit("    pass")
    g.emit("")
    # a comment with parentheses after the signature's own "):"
    fline = g.line_no()
    g.emit("def test_commented(fb):  # regression (issue 12)")
    g.funcs.append({"name": "test_commented", "line0": fline, "shape": "single+comment", "kind": "test", "declared": ["fb"], "simple": True})
    g.add_stmt("w = fc.attr", "fc", "must", "test_commented", 4)
    # defined by the conftest of pk/ only (sibling directory, string prefix of pkg/): not available here
    g.add_stmt("call(inv_prefix)", "inv_prefix", "never", "test_commented", 4)
    g.add_stmt("call(inv_sibling)", "inv_sibling", "never", "test_commented", 4)
    g.emit("    pass")
    g.emit("")
    return g


def apply_edits(text, edits):
    """apply LSP TextEdits (positions in the server's column units = bytes for ASCII documents)"""
    lines = text.split("\n")
    for e in sorted(edits, key=lambda e: (e["range"]["start"]["line"], e["range"]["start"]["character"]), reverse=True):
        sl, sc = e["range"]["start"]["line"], e["range"]["start"]["character"]
        el, ec = e["range"]["end"]["line"], e["range"]["end"]["character"]
        if sl >= len(lines) or el >= len(lines):
            return None
        before = lines[sl][:sc]
        after = lines[el][ec:]
        new = (before + e["newText"] + after).split("\n")
        lines[sl:el + 1] = new
    return "\n".join(lines)


def func_sigs(text):
    try:
        tree = ast.parse(text)
    except SyntaxError:
        return None
    out = {}
    for n in ast.walk(tree):
        if isinstance(n, (ast.FunctionDef, ast.AsyncFunctionDef)):
            params = [a.arg for a in n.args.posonlyargs + n.args.args + n.args.kwonlyargs]
            body = ast.dump(ast.Module(body=n.body, type_ignores=[]))
            out[n.name] = (params, body, ast.dump(n.args))
    return out


def judge_doc(ctx, srv, f, g, text, conf, opened, resend=True):
    from ..lsp import path_to_uri
    if resend:
        before = srv.seq
        (srv.did_change if opened else srv.did_open)(f, text)
        diags = srv.wait_diagnostics(f, before, timeout=30)
    else:
        # judge what the editor shows now: the last notification received for the document
        allp = srv.diag.get(path_to_uri(f), [])
        diags = allp[-1][1] if allp else None
    if diags is None:
        raise Inconclusive("no diagnostics published")
    und = [d for d in diags if d.get("code") == "undeclared-fixture"]
    got = {(d["range"]["start"]["line"], d["range"]["start"]["character"], d["range"]["end"]["character"]): d for d in und}
    sites = {(s["line0"], s["col_b"], s["col_b"] + len(s["name"])): s for s in g.sites}
    shapes = {fn["name"]: fn for fn in g.funcs}
    for key, s in sites.items():
        ctx.judged()
        flagged = key in got
        if s["label"] == "must" and not flagged:
            ctx.violation({"kind": "visible-undeclared-fixture-not-flagged", "name": s["name"], "stmt": g.lines[s["line0"]].strip()[:60]},
                          {"site": s, "flagged": sorted(got)[:10]}, files={"test_doc.py": text, "conftest.py": conf})
        elif s["label"] == "never" and flagged:
            ctx.violation({"kind": "warning-on-name-that-must-not-be-flagged", "name": s["name"], "stmt": g.lines[s["line0"]].strip()[:60]},
                          {"site": s, "message": got[key]["message"]}, files={"test_doc.py": text, "conftest.py": conf})
        ctx.nontrivial((s["label"], g.lines[s["line0"]].strip().split(s["name"])[0][-6:], shapes[s["func"]]["shape"]))
    for key, d in got.items():
        if key not in sites:
            # a warning somewhere we did not place a use: must at least be a token of a visible fixture name
            line = g.lines[key[0]] if key[0] < len(g.lines) else ""
            tok = line.encode()[key[1]:key[2]].decode("utf-8", "replace")
            ctx.judged()
            if tok not in VISIBLE:
                ctx.violation({"kind": "warning-range-is-not-a-fixture-name", "token": tok}, {"diag": d, "line": line},
                              files={"test_doc.py": text})
    # ---- quick fixes ------------------------------------------------------------------------------------
    base_sigs = func_sigs(text)
    done_funcs = set()
    for key, d in list(got.items())[:6]:
        s = sites.get(key)
        if s is None or (s["func"], s["name"]) in done_funcs:
            continue
        done_funcs.add((s["func"], s["name"]))
        r = srv.code_action(f, d["range"], [d])
        if not r["answered"]:
            raise Inconclusive("codeAction unanswered")
        acts = r.get("result") or []
        fn = shapes[s["func"]]
        for a in acts:
            edits = []
            for uri, es in (a.get("edit", {}).get("changes") or {}).items():
                edits += es
            verdict = judge_edit(ctx, srv, f, text, edits, s, fn, base_sigs, "quick_fix")
            ctx.nontrivial(("quick_fix", fn["shape"], verdict))
        if not acts:
            ctx.count("no_quick_fix_offered:" + fn["shape"])
        # ---- completion in the body: parameter edit attached to the item ---------------------------------
        r = srv.completion(f, s["line0"], 0)
        items = r.get("result") or []
        if isinstance(items, dict):
            items = items.get("items", [])
        it = next((x for x in items if x["label"] == s["name"] and x.get("additionalTextEdits")), None)
        if it is not None:
            verdict = judge_edit(ctx, srv, f, text, it["additionalTextEdits"], s, fn, base_sigs, "completion_edit")
            ctx.nontrivial(("completion_edit", fn["shape"], verdict))


def run(ctx):
    quick = ctx.tier == "quick"
    n = 40 if quick else 2500
    ctx.rule = ("generated test modules: function shapes (single/multi-line signatures, trailing commas, return annotations, "
                "methods, async, fixtures, helpers) x body use forms x local/module-level/import bindings; every use site labelled; "
                "diagnostics compared at token positions; every quick fix and completion parameter edit round-tripped through "
                "CPython and the server; distinct = (use form class, label, function shape) and edit outcomes")
    root = ctx.scratch("ws")
    conf = HDR + "".join(f"@pytest.fixture\ndef {n_}():\n    return 1\n\n" for n_ in VISIBLE)
    # the sibling conftest (invisible from pkg/) also defines a name that IS visible through the root conftest
    sib = HDR + "@pytest.fixture\ndef inv_sibling():\n    return 1\n\n@pytest.fixture\ndef " + VISIBLE[0] + "():\n    return 2\n"
    # pk/ is a sibling of pkg/ whose name is a string prefix of it: its conftest is not on pkg's path
    pfx = HDR + "@pytest.fixture\ndef inv_prefix():\n    return 1\n"
    write_tree(root, {"conftest.py": conf, "sib/conftest.py": sib, "pk/conftest.py": pfx, "pk/test_other.py": "def test_o(inv_prefix):\n    pass\n",
                      "pkg/test_doc.py": ""})
    f = os.path.join(root, "pkg", "test_doc.py")
    srv = LSP(srv_bin(), root, locklog=os.path.join(ctx.scratch_root, "lock_srv.log"))
    try:
        srv.initialize()
        opened = False
        pinned(ctx, srv, f, conf)
        opened = True
        if os.environ.get("VERIF_ONLY_PINNED"):
            return
        for i in range(n):
            if i == 0 or i == n // 2:
                # registration order of the two same-named definitions: re-analysing a conftest moves its records last
                which = "conftest.py" if i == 0 else "sib/conftest.py"
                before = srv.seq
                srv.did_open(os.path.join(root, which), conf if i == 0 else sib)
                srv.wait_diagnostics(os.path.join(root, which), before, timeout=10)
                ctx.nontrivial(("same_name_in_sibling_conftest_registered", "first" if i == 0 else "last"))
            g = directed_doc(ctx.rng) if i == 1 else gen_doc(ctx.rng)
            text = "\n".join(g.lines) + "\n"
            try:
                compile(text, "<doc>", "exec", dont_inherit=True)
            except Exception:
                ctx.count("skipped_invalid_generated_doc")
                continue
            judge_doc(ctx, srv, f, g, text, conf, opened)
            opened = True
            if i % 3 == 0 and text.endswith("\n\n") and g.lines and g.lines[-1] == "":
                # the same text with its last newline moved to the front: the same length, every line one lower
                import copy
                g2 = copy.copy(g)
                g2.lines = [""] + g.lines[:-1]
                g2.sites = [dict(s_, line0=s_["line0"] + 1) for s_ in g.sites]
                g2.funcs = [dict(fn_, line0=fn_["line0"] + 1) for fn_ in g.funcs]
                judge_doc(ctx, srv, f, g2, "\n" + text[:-1], conf, True)
                ctx.nontrivial(("same_length_shifted_lines",))
            if i % 3 == 1 and any(s_["label"] == "must" for s_ in g.sites):
                # two versions back to back: a large paste that also hides one use, then the text again
                victim = next(s_ for s_ in g.sites if s_["label"] == "must")
                lines2 = list(g.lines)
                lines2[victim["line0"]] = lines2[victim["line0"]].replace(victim["name"], "x", 1)
                big = "\n".join(lines2) + "\n" + "".join(f"def helper_pad_{k}(a, b):\n    c = [a, b]\n    return c\n\n" for k in range(3000))
                with srv.batch():
                    srv.did_change(f, big)
                    srv.did_change(f, text)
                srv.document_symbol(f)
                srv.pump(0.3)
                judge_doc(ctx, srv, f, g, text, conf, True, resend=False)
                ctx.nontrivial(("burst_then_judged",))
            ctx.sample({"doc": text[:1200], "sites": g.sites[:8]})
            ctx.count("documents")
    finally:
        un = srv.unanswered()
        srv.shutdown()
        shutil.rmtree(root, ignore_errors=True)
        if un:
            raise Inconclusive("server stopped answering")


def judge_edit(ctx, srv, f, text, edits, site, fn, base_sigs, what):
    ctx.judged()
    new = apply_edits(text, edits)
    problem = None
    sigs = func_sigs(new) if new is not None else None
    if new is None:
        problem = "edit-outside-document"
    elif sigs is None:
        problem = "document-no-longer-parses"
    else:
        tgt = sigs.get(site["func"])
        if tgt is None or site["name"] not in tgt[0]:
            problem = "fixture-is-not-a-parameter-of-the-function"
        for name, (params, body, args) in base_sigs.items():
            if name == site["func"]:
                continue
            if name not in sigs or sigs[name][2] != args or sigs[name][1] != body:
                problem = "another-function-was-changed"
    if problem is None:
        # feed back: the warning must be gone
        before = srv.seq
        srv.did_change(f, new)
        d2 = srv.wait_diagnostics(f, before, timeout=30) or []
        still = [d for d in d2 if d.get("code") == "undeclared-fixture" and site["name"] in d["message"]
                 and enclosing(new, d["range"]["start"]["line"]) == site["func"]]
        before = srv.seq
        srv.did_change(f, text)
        srv.wait_diagnostics(f, before, timeout=30)
        if still:
            problem = "warning-persists-after-fix"
    if problem is None:
        return "ok"
    if not fn["simple"] and ctx.known(KF_INSERT):
        ctx.count(f"kf_{what}:{fn['shape']}:{problem}")
        return "kf:" + problem
    ctx.violation({"kind": what + ":" + problem, "shape": fn["shape"], "function": site["func"]},
                  {"edits": edits, "def_line": text.split("\n")[fn["line0"]], "site": site}, files={"test_doc.py": text, "after.py": new or ""})
    return problem


def enclosing(text, line0):
    try:
        tree = ast.parse(text)
    except SyntaxError:
        return None
    best = None
    for n in ast.walk(tree):
        if isinstance(n, (ast.FunctionDef, ast.AsyncFunctionDef)) and n.lineno - 1 <= line0 <= n.end_lineno - 1:
            if best is None or n.lineno > best.lineno:
                best = n
    return best.name if best else None


def pinned(ctx, srv, f, conf):
    from ..witness import WITNESS
    text = WITNESS[KF_INSERT]["doc"]
    g = Gen(ctx.rng)
    g.lines = text.split("\n")
    g.sites = [{"line0": 3, "col_b": 8, "name": "fa", "label": "must", "func": "test_first"},
               {"line0": 12, "col_b": 8, "name": "fa", "label": "must", "func": "test_third"}]
    g.funcs = [{"name": "test_first", "line0": 2, "shape": "single_ret", "kind": "test", "declared": [], "simple": False},
               {"name": "test_second", "line0": 6, "shape": "single", "kind": "test", "declared": ["fb"], "simple": True},
               {"name": "test_third", "line0": 9, "shape": "multi_trailing", "kind": "test", "declared": ["fb"], "simple": False}]
    judge_doc(ctx, srv, f, g, text, conf, False)
