"""C02 — a self-named parameter resolves outward; the cursor decides which fixture.

Monitor: reference-model monitor over generated override chains (length 1-4, links placed in the
test module / conftest levels / an imported module / a workspace plugin / a third-party plugin).
At every column of every overriding `def name(name)` line the real resolver's answer is compared with
the model (parameter -> next definition outward, never the fixture itself; function name -> the
fixture itself), references of every link are compared with the model's reverse relation, and the
real server's definition / hover / references / call-hierarchy / implementation are checked too.
"""
import os, re, shutil

from .. import gen
from ..common import Inconclusive
from ..lsp import LSP, uri_to_path
from ..runner import vh_bin, srv_bin, materialize, def_index, expected_target, res_kind, predict_import_branch
from ..vh import VH

KF_MULTILINE = "KF-C02-self-param-on-continuation-line"
KF_IMPORT = "KF-C02-import-first-registered"

PLACES = ["same_file", "conf3", "conf2", "conf1", "conf0", "plugin", "third_party"]
DIRS = {"conf0": "", "conf1": "a", "conf2": "a/b", "conf3": "a/b/c"}


def gen_chain(root, rng):
    ws = gen.WS(root)
    name = "res"
    L = rng.randint(1, 4)
    places = sorted(rng.sample(PLACES, L), key=PLACES.index)
    multiline = rng.random() < 0.25
    files = {d + "/conftest.py" if d else "conftest.py": [gen.HEADER] for d in DIRS.values()}
    samefile_src = ""
    spec = {"places": places, "multiline": multiline, "imported": []}
    venv_needed = False
    for i, pl in enumerate(places):
        outermost = i == len(places) - 1
        selfp = (not outermost) or rng.random() < 0.3
        ml = multiline and selfp and rng.random() < 0.6
        src, _ = gen.fixture_src(ws, name, rng, self_param=selfp, multiline=ml,
                                 extra_deps=["other_dep"] if rng.random() < 0.3 else ())
        if pl == "same_file":
            samefile_src = src + "\n"
            if not ml and rng.random() < 0.4:
                # two test classes, each overriding the name for its own tests
                src2, _ = gen.fixture_src(ws, name, rng, self_param=True)
                def in_class(cn, body):
                    body = body.replace(f"def {name}(", f"def {name}(self, ").replace("(self, )", "(self)")
                    return f"class {cn}:\n" + "".join(("    " + ln if ln.strip() else ln) for ln in body.splitlines(True)) + \
                           f"\n    def test_in_{cn.lower()}(self, {name}):\n        pass\n\n"
                samefile_src = in_class("TestAlpha", src) + in_class("TestBeta", src2)
                spec["classes"] = True
        elif pl.startswith("conf"):
            d = DIRS[pl]
            key = d + "/conftest.py" if d else "conftest.py"
            if rng.random() < 0.3:
                # the link lives in a module the conftest star-imports / explicitly imports
                mod = f"chainmod_{pl}"
                ws.files[os.path.join(d, mod + ".py")] = gen.HEADER + src
                files[key].append(rng.choice([f"from .{mod} import *\n", f"from .{mod} import {name}\n", f'pytest_plugins = ["{mod}"]\n']))
                spec["imported"].append(pl)
            else:
                files[key].append(src + "\n")
        elif pl == "plugin":
            venv_needed = True
            ws.files["wsplug/__init__.py"] = ""
            ws.files["wsplug/plugin_mod.py"] = gen.HEADER + src
            ws.plugin_rel.add("wsplug/plugin_mod.py")
        elif pl == "third_party":
            venv_needed = True
            sp = f".venv/lib/{gen.PYVER}/site-packages"
            ws.files[f"{sp}/tp_plug.py"] = gen.HEADER + src
            ws.files[f"{sp}/tp_plug-1.0.dist-info/entry_points.txt"] = "[pytest11]\ntp = tp_plug\n"
            ws.third_party_rel.add(f"{sp}/tp_plug.py")
            ws.plugin_rel.add(f"{sp}/tp_plug.py")
    # a provider for the unrelated dependency
    files["conftest.py"].append("@pytest.fixture\ndef other_dep():\n    return 0\n\n")
    for key, parts in files.items():
        if len(parts) > 1 or rng.random() < 0.3:
            # imports first
            imps = [p for p in parts[1:] if p.startswith(("from ", "pytest_plugins"))]
            rest = [p for p in parts[1:] if not p.startswith(("from ", "pytest_plugins"))]
            ws.files[key] = parts[0] + "".join(imps) + "\n" + "".join(rest)
    if venv_needed:
        sp = f".venv/lib/{gen.PYVER}/site-packages"
        ws.site_rel.append(sp)
        ws.files[f"{sp}/_pytest/__init__.py"] = ""
        ws.third_party_rel.add(f"{sp}/_pytest/__init__.py")
        if "wsplug/plugin_mod.py" in ws.files:
            import json
            ws.files[f"{sp}/wsplug-0.1.dist-info/entry_points.txt"] = "[pytest11]\nws = wsplug.plugin_mod\n"
            ws.files[f"{sp}/wsplug-0.1.dist-info/direct_url.json"] = json.dumps({"url": "file://" + root, "dir_info": {"editable": True}})
            ws.files[f"{sp}/__editable__.wsplug-0.1.pth"] = root + "\n"
    # tests using the name at every depth
    for d in list(DIRS.values()):
        body = "\n" * rng.randint(0, 2) + gen.HEADER      # (line numbers of usages coincide with definition lines elsewhere)
        if d == "a/b/c" and samefile_src:
            if rng.random() < 0.5:
                body += samefile_src
                late = ""
            else:
                late = samefile_src
        else:
            late = ""
        body += f"def test_use({name}):\n    pass\n\n@pytest.mark.usefixtures(\"{name}\")\ndef test_mark():\n    pass\n\n"
        body += f"@pytest.fixture\ndef consumer({name}, other_dep):\n    return {name}\n\n" + late
        ws.files[os.path.join(d, "test_use.py")] = body
    # an invisible sibling with the same name
    if rng.random() < 0.5:
        s_, _ = gen.fixture_src(ws, name, rng)
        ws.files["a/sib/conftest.py"] = gen.HEADER + s_
        ws.files["a/sib/test_use.py"] = f"def test_s({name}):\n    pass\n"
    ws.spec = spec | {"depth": 3, "names": [name]}
    return ws


def run(ctx):
    quick = ctx.tier == "quick"
    n = 80 if quick else 3000
    n_lsp = 16 if quick else 300
    ctx.rule = ("override chains of length 1-4 over placements {test module, conftest at 4 levels (own definition or "
                "star/explicit/pytest_plugins import), workspace plugin, third-party}; single- and multi-line signatures; "
                "every column of every definition line; references of every link; distinct = (placement vector, "
                "multiline, kind of judgement)")
    vh = VH(vh_bin(), locklog=os.path.join(ctx.scratch_root, "lock_vh.log"))
    try:
        pinned(ctx, vh)
        if os.environ.get("VERIF_ONLY_PINNED"):
            return
        directed_two_links_in_one_file(ctx, vh)
        directed_new_file_through_symlink(ctx)
        for i in range(n):
            root = ctx.scratch(f"c{i}")
            ws = gen_chain(root, ctx.rng)
            materialize(ws)
            model = ws.model()
            db = vh.new_db()
            r = vh.call(op="scan", db=db, root=root)
            if "panic" in r:
                raise Inconclusive(f"scan panicked {r}")
            order = def_index(vh.call(op="raw", db=db))
            judge_workspace(ctx, ws, model, order, "vh",
                            goto=lambda f, l, c: _vh_goto(vh, db, f, l, c),
                            refs=lambda f, l, n_: _vh_refs(vh, db, f, l, n_))
            if i % 3 == 0:
                # the editor closed every conftest.py tab (texts leave the text cache; the chain on disk is unchanged)
                for rel in ws.workspace_py():
                    if rel.endswith("conftest.py"):
                        vh.call(op="close", db=db, path=ws.abs(rel))
                # ... and the other modules of the chain (workspace plugin module, imported modules) were opened, closed
                # and opened again with unchanged text
                for rel in ws.workspace_py():
                    if not rel.endswith("conftest.py") and not os.path.basename(rel).startswith("test_") and rel.endswith(".py"):
                        f_ = ws.abs(rel)
                        vh.call(op="analyze", db=db, path=f_, text=ws.files[rel])
                        vh.call(op="close", db=db, path=f_)
                        vh.call(op="analyze", db=db, path=f_, text=ws.files[rel])
                ctx.nontrivial(("phase", "conftests_closed"))
                order = def_index(vh.call(op="raw", db=db))      # re-analysis moved those files' records to the end
                judge_workspace(ctx, ws, model, order, "vh",
                                goto=lambda f, l, c: _vh_goto(vh, db, f, l, c),
                                refs=lambda f, l, n_: _vh_refs(vh, db, f, l, n_))
            vh.call(op="drop_db", db=db)
            if i < n_lsp:
                lsp_level(ctx, ws, model, order)
            ctx.sample({"spec": ws.spec, "files": {k: v for k, v in list(ws.files.items())[:3]}})
            ctx.count("chains")
            shutil.rmtree(root, ignore_errors=True)
    finally:
        vh.close()


DIRECTED_CONF = "import pytest\n\n@pytest.fixture\ndef res():\n    return 0\n"
DIRECTED_TEST = ("import pytest\n\n"                                              # 1-2
                 "@pytest.fixture\ndef res(res):\n    return res + 1\n\n"          # 3-6: module-level link (def on line 4)
                 "def test_module_level(res):\n    pass\n\n"                      # 7-9
                 "class TestGamma:\n"                                             # 10
                 "    @pytest.fixture\n    def res(self, res):\n        return res + 1\n\n"   # 11-14: class-level link (def on line 12)
                 "    def test_in_class(self, res):\n        pass\n")             # 15-16


def directed_two_links_in_one_file(ctx, vh):
    """two links of one chain in ONE file, unambiguous for pytest: a class-level override (the last definition of the name in
    the file) requests the module-level one above it, which requests the conftest's.  Navigation from each parameter goes
    one link outward; each link's references are exactly the usages that resolve to it."""
    root = ctx.scratch("two_links")
    files = {"conftest.py": DIRECTED_CONF, "test_links.py": DIRECTED_TEST}
    from ..common import write_tree
    write_tree(root, files)
    conf, test = os.path.join(root, "conftest.py"), os.path.join(root, "test_links.py")
    lines = DIRECTED_TEST.split("\n")
    for how in ("scan", "open_test_last", "open_conftest_last"):
        db = vh.new_db()
        vh.call(op="scan", db=db, root=root)
        if how == "open_test_last":
            vh.call(op="analyze", db=db, path=test, text=DIRECTED_TEST)
        elif how == "open_conftest_last":
            vh.call(op="analyze", db=db, path=conf, text=DIRECTED_CONF)
        # (line, occurrence index of 'res' on the line) -> expected target.  Only what both the statement and "the last
        # definition of a file wins" agree on is judged: the class-level parameter goes one link outward (to the module-level
        # definition of the same file, not past the file and never to its own fixture), the class's test binds to the class-level
        # link.  Where the module-level parameter and the module-level test go is not judged (the implementation has no class
        # scoping: "last one in the file" - C01's statement allows that).
        want = {(12, 1): (test, 4), (15, 0): (test, 12)}
        for (ln, occ), exp in want.items():
            text = lines[ln - 1]
            cols = [m_.start() for m_ in re.finditer(r"\bres\b", text)]
            c0 = cols[occ]
            for col in range(c0, c0 + 3):
                act = _vh_goto(vh, db, test, ln, col)
                ctx.judged()
                if act != exp:
                    ctx.violation({"kind": "two-links-in-one-file", "how": how, "line": ln, "col": col,
                                   "expected": [os.path.relpath(exp[0], root), exp[1]],
                                   "actual": [os.path.relpath(act[0], root), act[1]] if act else None}, {}, files=files)
                    break
        # references are the reverse relation: the class-level parameter is listed under the module-level link and under no
        # other; the class's test under the class-level link
        p12 = (test, 12, [m_.start() for m_ in re.finditer(r"\bres\b", lines[11])][1])
        t15 = (test, 15, [m_.start() for m_ in re.finditer(r"\bres\b", lines[14])][0])
        r_mod, r_cls, r_conf = (_vh_refs(vh, db, test, 4, "res") or []), (_vh_refs(vh, db, test, 12, "res") or []), (_vh_refs(vh, db, conf, 4, "res") or [])
        ctx.judged()
        if p12 not in r_mod or p12 in r_cls or p12 in r_conf or t15 not in r_cls or t15 in r_mod or t15 in r_conf:
            ctx.violation({"kind": "two-links-in-one-file-references", "how": how},
                          {"module_level": [list(x[1:]) for x in r_mod], "class_level": [list(x[1:]) for x in r_cls],
                           "conftest": [list(x[1:]) for x in r_conf]}, files=files)
        ctx.nontrivial(("directed_two_links_in_one_file", how))
        vh.call(op="drop_db", db=db)
    shutil.rmtree(root, ignore_errors=True)


def directed_new_file_through_symlink(ctx):
    """real server, workspace named through a symbolic link: a NEW module (not on disk yet) with an override is opened
    through the link, then saved and changed again; navigation from the override's parameter goes to the conftest's
    definition, the module's test binds to the override - before the save and after it"""
    from ..common import write_tree
    base = ctx.scratch("symlink_new")
    real = os.path.realpath(os.path.join(base, "real_ws"))
    files = {"conftest.py": DIRECTED_CONF, "a/__init__.py": "", "a/test_old.py": "def test_o(res):\n    pass\n"}
    write_tree(real, files)
    link = os.path.join(os.path.realpath(base), "link_ws")
    os.symlink(real, link)
    new_text = "import pytest\n\n@pytest.fixture\ndef res(res):\n    return res + 1\n\ndef test_new(res):\n    pass\n"
    srv = LSP(srv_bin(), link, locklog=os.path.join(ctx.scratch_root, "lock_srv.log"))
    try:
        srv.initialize()
        f_link = os.path.join(link, "a", "test_new.py")
        f_real = os.path.join(real, "a", "test_new.py")
        conf_real = os.path.join(real, "conftest.py")

        def goto(line0, col):
            r = srv.definition(f_link, line0, col)
            if not r["answered"]:
                raise Inconclusive("definition unanswered")
            res = r.get("result")
            if not res:
                return None
            res = res[0] if isinstance(res, list) else res
            return (os.path.realpath(uri_to_path(res["uri"])), res["range"]["start"]["line"] + 1)

        def judge(phase):
            for (line0, col, exp, what) in ((3, 8, (conf_real, 4), "override-parameter"), (6, 13, (f_real, 4), "test-parameter")):
                act = goto(line0, col)
                ctx.judged()
                if act != exp:
                    ctx.violation({"kind": "new-module-through-symlink", "phase": phase, "what": what,
                                   "expected": [os.path.relpath(exp[0], real), exp[1]],
                                   "actual": [os.path.relpath(act[0], real), act[1]] if act else None}, {}, files=files | {"a/test_new.py": new_text})
            ctx.nontrivial(("directed_new_module_through_symlink", phase))

        before = srv.seq
        srv.did_open(f_link, new_text)
        srv.wait_diagnostics(f_link, before, timeout=20)
        judge("unsaved")
        write_tree(real, {"a/test_new.py": new_text})
        before = srv.seq
        srv.did_change(f_link, new_text)
        srv.wait_diagnostics(f_link, before, timeout=20)
        judge("saved")
        before = srv.seq
        srv.did_change(f_link, "\n" + new_text)
        srv.wait_diagnostics(f_link, before, timeout=20)
        for (line0, col, exp, what) in ((4, 8, (conf_real, 4), "override-parameter"), (7, 13, (f_real, 5), "test-parameter")):
            act = goto(line0, col)
            ctx.judged()
            if act != exp:
                ctx.violation({"kind": "new-module-through-symlink", "phase": "saved+edited", "what": what,
                               "expected": [os.path.relpath(exp[0], real), exp[1]],
                               "actual": [os.path.relpath(act[0], real), act[1]] if act else None}, {}, files=files)
    finally:
        srv.shutdown()
        shutil.rmtree(base, ignore_errors=True)


def _vh_goto(vh, db, f, line1, col):
    a = vh.call(op="goto", db=db, path=f, line=line1 - 1, char=col)
    if "panic" in a:
        raise Inconclusive(f"goto panicked: {a}")
    t = a.get("target")
    return (t["file"], t["line"]) if t else None


def _vh_refs(vh, db, f, line1, name):
    a = vh.call(op="refs_for_def", db=db, path=f, line=line1, name=name)
    if a.get("def") is None:
        return None
    return sorted((u["file"], u["line"], u["start_char"]) for u in a["refs"])


def all_usages(ws, model):
    for rel in ws.py_files():
        f = ws.abs(rel)
        m = model.models.get(f)
        if m is None or not m.ok:
            continue
        for u in m.usages:
            yield f, m, u


def classify_usage(ctx, ws, model, order, f, m, u, level="vh"):
    """-> (expected set | None, known-finding prediction or None, dont_care)"""
    res, ex = model.resolve_usage(f, u)
    exp = expected_target(res)
    if u.get("has_default") or u["name"] in ("request", "self", "cls"):
        return exp, None, True
    if ex is not None and len(m.defs_named(u["name"])) >= 2:
        # same-file redefinition: which outer definition is meant is not pinned by the statement, but
        # "never to the overriding fixture itself" is (checked when the parameter is on the def line)
        return exp, None, ("redef" if u["line"] == ex[1] else True)
    kf = None
    if ex is not None and u["line"] != ex[1]:
        # parameter on a continuation line: the implementation does not apply the exclusion there
        r2 = model.resolve(f, u["name"], None)
        kf = (KF_MULTILINE, expected_target(r2))
    else:
        pred = predict_import_branch(model, order, f, u["name"], ex)
        if pred is not None and level == "vh" and (exp is None or pred not in exp):
            kf = (KF_IMPORT, {pred})
        elif pred is not None and level != "vh":
            # another process: its registration order is unknown, any same-named definition may be "first"
            kf = (KF_IMPORT, {d for d in order.get(u["name"], []) if d != ex})
    return exp, kf, False


def judge_workspace(ctx, ws, model, order, level, goto, refs):
    tag = (tuple(ws.spec["places"]), ws.spec["multiline"])
    # ---- every column of every definition line that carries a same-named parameter -----------------------
    resolved = {}     # usage key -> actual/expected classification for the reverse relation
    for f, m, u in all_usages(ws, model):
        exp, kf, dc = classify_usage(ctx, ws, model, order, f, m, u, level)
        if dc == "redef":
            ex_ = u["in_def"]
            for col in ([u["start_b"], u["end_b"] - 1]):
                act = goto(f, u["line"], col)
                ctx.judged()
                if act == (f, ex_["line"]):
                    ctx.violation({"kind": "parameter-resolves-to-its-own-fixture", "level": level, "file": os.path.relpath(f, ws.root),
                                   "usage": [u["name"], u["line"], u["start_b"]]},
                                  {"spec": ws.spec, "note": "same-named definitions in one file"}, files=ws.files)
                    break
            ctx.nontrivial(tag + (level, "self_param_redefined_file"))
            continue
        if dc:
            ctx.count("dont_care")
            continue
        cols = range(u["start_b"], u["end_b"]) if level == "vh" else [u["start_b"], u["end_b"] - 1]
        final = None
        for col in cols:
            act = goto(f, u["line"], col)
            ctx.judged()
            ok = (act is None and exp is None) or (act is not None and exp is not None and act in exp)
            if not ok and kf and act is not None and kf[1] and act in kf[1] and ctx.known(kf[0]):
                final = act
                continue
            if not ok:
                ctx.violation({"kind": "parameter-resolution", "level": level, "file": os.path.relpath(f, ws.root),
                               "usage": [u["name"], u["line"], u["start_b"]], "expected": sorted(exp) if exp else None, "actual": act},
                              {"spec": ws.spec, "usage_kind": u["kind"], "self_named": u.get("in_def") is not None and u["in_def"]["name"] == u["name"]},
                              files=ws.files)
                break
            final = act
        resolved[(f, u["line"], u["start_b"])] = final
        if u.get("in_def") is not None and u["in_def"]["name"] == u["name"]:
            ctx.nontrivial(tag + (level, "self_param", u["line"] != u["in_def"]["line"]))
            # the rest of the definition line must not navigate anywhere, and never to the fixture itself
            d = u["in_def"]
            if d["name_span"] and d["line"] == u["line"] and level == "vh":
                line = m.lt.line_text(d["line"])
                for col in range(len(line.encode())):
                    if u["start_b"] <= col < u["end_b"]:
                        continue
                    if any(o["line"] == u["line"] and o["start_b"] <= col < o["end_b"] for o in m.usages):
                        continue
                    act = goto(f, d["line"], col)
                    ctx.judged()
                    if act is not None and not (d["name_span"]["start_b"] <= col < d["name_span"]["end_b"] and act == (f, d["line"])):
                        ctx.violation({"kind": "non-parameter-column-navigates", "level": level, "col": col,
                                       "file": os.path.relpath(f, ws.root), "line": d["line"]},
                                      {"actual": act, "line_text": line, "spec": ws.spec}, files=ws.files)
                        break
    # ---- references of every link = reverse of resolution --------------------------------------------------
    for rel in ws.py_files():
        f = ws.abs(rel)
        m = model.models.get(f)
        if m is None or not m.ok:
            continue
        for d in m.defs:
            if d["name"] != ws.spec["names"][0]:
                continue
            got = refs(f, d["line"], d["name"])
            if got is None:
                ctx.violation({"kind": "definition-not-indexed", "level": level, "file": rel, "line": d["line"]}, {"spec": ws.spec}, files=ws.files)
                continue
            want = sorted(k for k, v in resolved.items() if v == (f, d["line"]))
            # usages left out as don't-care are removed from the answer as well
            known_keys = set(resolved)
            got_f = sorted(g for g in got if g in known_keys)
            ctx.judged()
            if got_f != want:
                ctx.violation({"kind": "references-of-link", "level": level, "file": rel, "line": d["line"]},
                              {"got": [(os.path.relpath(a, ws.root), b, c) for a, b, c in got_f],
                               "want": [(os.path.relpath(a, ws.root), b, c) for a, b, c in want], "spec": ws.spec}, files=ws.files)
            ctx.nontrivial(tag + (level, "refs", len(want) > 0))


def lsp_level(ctx, ws, model, order):
    srv = LSP(srv_bin(), ws.root, locklog=os.path.join(ctx.scratch_root, "lock_srv.log"))
    try:
        srv.initialize()
        if not any("scan complete" in l for l in srv.logs):
            raise Inconclusive("scan did not complete")

        def goto(f, line1, col):
            r = srv.definition(f, line1 - 1, col)
            if not r["answered"]:
                raise Inconclusive("definition unanswered")
            res = r.get("result")
            if not res:
                return None
            res = res[0] if isinstance(res, list) else res
            return (uri_to_path(res["uri"]), res["range"]["start"]["line"] + 1)

        def refs(f, line1, name):
            m = model.models[f]
            d = next(x for x in m.defs if x["line"] == line1 and x["name"] == name)
            if not d["name_span"]:
                return []
            r = srv.references(f, line1 - 1, d["name_span"]["start_b"])
            if not r["answered"]:
                raise Inconclusive("references unanswered")
            out = []
            for x in (r.get("result") or []):
                p, l, c = uri_to_path(x["uri"]), x["range"]["start"]["line"] + 1, x["range"]["start"]["character"]
                if (p, l) == (f, line1) and c == 0:
                    continue   # the declaration itself
                out.append((p, l, c))
            # the handler leaves out references that sit on the definition's own line (documented de-duplication)
            same_line = [(ff, u["line"], u["start_b"]) for ff, mm, u in all_usages(ws, model)
                         if ff == f and u["line"] == line1]
            return sorted(set(out) | {k for k in same_line if _resolves_to(ws, model, order, k, (f, line1))})
        judge_workspace(ctx, ws, model, order, "lsp", goto, refs)
        # hover / hierarchy / implementation identities on self-named parameters and on function names
        for f, m, u in all_usages(ws, model):
            d = u.get("in_def")
            if d is None or d["name"] != u["name"] or d["line"] != u["line"] or len(m.defs_named(u["name"])) >= 2:
                continue
            exp, kf, dc = classify_usage(ctx, ws, model, order, f, m, u, "lsp")
            if dc or kf:
                continue
            hv = srv.hover(f, u["line"] - 1, u["start_b"]).get("result")
            ctx.judged()
            if exp is None:
                if hv:
                    ctx.violation({"kind": "hover-on-unresolvable-parameter"}, {"hover": hv, "spec": ws.spec}, files=ws.files)
            else:
                (pf, pl) = sorted(exp)[0]
                pm = model.models[pf]
                pd = next(x for x in pm.defs if x["line"] == pl)
                doc = (pd["docstring"] or "")
                val = hv["contents"]["value"] if hv else ""
                if doc and doc not in val and len(exp) == 1:
                    ctx.violation({"kind": "hover-describes-wrong-definition", "file": os.path.relpath(f, ws.root)},
                                  {"hover": val, "expected_doc": doc, "spec": ws.spec}, files=ws.files)
            # function name column: hierarchy and implementation denote the overriding fixture itself
            nc = d["name_span"]["start_b"]
            for method in ("prepareCallHierarchy", "implementation"):
                r = (srv.prepare_call_hierarchy if method == "prepareCallHierarchy" else srv.implementation)(f, d["line"] - 1, nc)
                res = r.get("result")
                ctx.judged()
                if not res:
                    ctx.violation({"kind": method + "-on-function-name-empty"}, {"spec": ws.spec}, files=ws.files)
                    continue
                res = res[0] if isinstance(res, list) else res
                line = (res["range"]["start"]["line"] if method == "implementation" else res["selectionRange"]["start"]["line"]) + 1
                ok_lines = {d["line"], d["yield_line"]} if method == "implementation" else {d["line"]}
                if uri_to_path(res["uri"]) != f or line not in ok_lines:
                    ctx.violation({"kind": method + "-on-function-name-denotes-other-fixture"},
                                  {"got": (os.path.relpath(uri_to_path(res["uri"]), ws.root), line), "want": (os.path.relpath(f, ws.root), d["line"]),
                                   "spec": ws.spec}, files=ws.files)
            # references requested from the parameter = references of the parent, and contain this parameter
            if exp is not None and len(exp) == 1:
                r = srv.references(f, u["line"] - 1, u["start_b"])
                locs = {(uri_to_path(x["uri"]), x["range"]["start"]["line"] + 1, x["range"]["start"]["character"]) for x in (r.get("result") or [])}
                ctx.judged()
                if (f, u["line"], u["start_b"]) not in locs:
                    ctx.violation({"kind": "references-from-parameter-miss-the-parameter"},
                                  {"locs": sorted((os.path.relpath(a, ws.root), b, c) for a, b, c in locs), "spec": ws.spec}, files=ws.files)
                (pf, pl) = sorted(exp)[0]
                if (pf, pl, 0) not in locs:
                    ctx.violation({"kind": "references-from-parameter-not-about-parent"},
                                  {"locs": sorted((os.path.relpath(a, ws.root), b, c) for a, b, c in locs),
                                   "parent": (os.path.relpath(pf, ws.root), pl), "spec": ws.spec}, files=ws.files)
                # the caret right after the parameter: nothing, or again the parent - never the overriding fixture itself
                r = srv.references(f, u["line"] - 1, u["end_b"])
                locs2 = {(uri_to_path(x["uri"]), x["range"]["start"]["line"] + 1, x["range"]["start"]["character"]) for x in (r.get("result") or [])}
                ctx.judged()
                if locs2 and ((f, d["line"], 0) in locs2 or (pf, pl, 0) not in locs2) and (pf, pl) != (f, d["line"]):
                    ctx.violation({"kind": "references-right-after-the-parameter-concern-the-overriding-fixture"},
                                  {"locs": sorted((os.path.relpath(a, ws.root), b, c) for a, b, c in locs2),
                                   "parent": (os.path.relpath(pf, ws.root), pl), "spec": ws.spec}, files=ws.files)
        ctx.count("lsp_chains")
    finally:
        srv.shutdown()


def _resolves_to(ws, model, order, key, target):
    f, line, col = key
    m = model.models[f]
    for u in m.usages:
        if (u["line"], u["start_b"]) == (line, col):
            res, ex = model.resolve_usage(f, u)
            exp = expected_target(res)
            return exp is not None and target in exp
    return False


def pinned(ctx, vh):
    from ..witness import WITNESS, ws_from_witness
    for kf_id in (KF_MULTILINE, KF_IMPORT):
        w = WITNESS[kf_id]
        ws = ws_from_witness(ctx, w)
        model = ws.model()
        db = vh.new_db()
        vh.call(op="batch", cmds=[{"op": "analyze_fresh", "db": db, "path": ws.abs(r), "text": ws.files[r]} for r in w["order"]])
        order = def_index(vh.call(op="raw", db=db))
        judge_workspace(ctx, ws, model, order, "vh",
                        goto=lambda f, l, c: _vh_goto(vh, db, f, l, c),
                        refs=lambda f, l, n_: _vh_refs(vh, db, f, l, n_))
        vh.call(op="drop_db", db=db)
        shutil.rmtree(ws.root, ignore_errors=True)
