"""C16 — dependency diagnostics (cycles, scope mismatches) are exact and stable.

Monitor: reference-model monitor + order permutations.  Generated fixture dependency graphs spread over
files (self-loops with and without a parent, several SCCs, cycles through overridden names, unknown
dependencies, the dependency name defined at several levels with different scopes).  Reference: the
definition-level graph whose edges are resolved from the depending fixture's file (model of pytest's
lookup, self-exclusion applied), Tarjan SCCs, and the five-level scope order.  Reported cycles must be real
closed chains and cover every cyclic SCC; scope mismatches must be exactly the model's; both are compared
across permutations of the analysis order and across fresh databases (hash seeds).
"""
import itertools, os, shutil

from .. import gen
from ..common import Inconclusive, write_tree
from ..lsp import LSP
from ..pymodel import SCOPES
from ..runner import vh_bin, srv_bin, def_index
from ..twins import norm_cycle_path
from ..vh import VH

KF_NAME_GRAPH = "KF-C16-cycle-graph-is-name-level-first-registered"
KF_HASH = "KF-C16-cycle-report-depends-on-hash-order"
HDR = "import pytest\nimport pytest_asyncio\n\n"
LOOP_SCOPES = ["session", "module", "function", "class"]


def fx(name, deps, scope, variant=0):
    """variant (derived from the name by the caller) picks a decorator spelling; pytest-asyncio's loop_scope= selects the
    event loop and says nothing about the fixture's caching scope"""
    if variant % 7 == 3:
        ls = LOOP_SCOPES[variant % 4]
        d = f'@pytest_asyncio.fixture(loop_scope="{ls}", scope="{scope}")' if scope != "function" else f'@pytest_asyncio.fixture(loop_scope="{ls}")'
        return f"{d}\nasync def {name}({', '.join(deps)}):\n    return 1\n\n"
    d = f'@pytest.fixture(scope="{scope}")' if scope != "function" else "@pytest.fixture"
    return f"{d}\ndef {name}({', '.join(deps)}):\n    return 1\n\n"


def gen_graph_ws(root, rng, unique):
    ws = gen.WS(root)
    dirs = ["", "a", "a/b", "c"]
    files = {(d + "/conftest.py" if d else "conftest.py"): [] for d in dirs}
    files["a/b/test_mod.py"] = []
    files["c/test_mod.py"] = []
    n = rng.randint(4, 9)
    names = [f"n{i}" for i in range(n)]
    placed = []
    flat = unique and rng.random() < 0.3      # everything in the root conftest: no invisible edges, nothing excusable
    if flat:
        ws.features.add(("flat",))
    for nm in names:
        reps = 1 if unique or rng.random() < 0.5 else rng.randint(2, 3)
        for f in (["conftest.py"] if flat else rng.sample(sorted(files), reps)):
            placed.append([nm, f, [], rng.choice(SCOPES)])
    for p in placed:
        k = rng.choice([0, 1, 1, 2, 3])
        deps = rng.sample(names + ["unknown_dep"], min(k, len(names)))
        # the override pattern: a later definition of a name requesting its own name
        if not unique and rng.random() < 0.3 and p[0] not in deps:
            deps.insert(0, p[0])
        if unique and rng.random() < 0.1 and p[0] not in deps:
            deps.insert(0, p[0])           # self-loop without a parent: a real cycle
        p[2] = deps
    if unique and rng.random() < 0.4:
        # a planted ring (or self-loop) whose members request an unknown name BEFORE the parameter that continues the ring
        ring = rng.sample(names, rng.randint(1, 3))
        for i_, nm in enumerate(ring):
            p = next(q for q in placed if q[0] == nm)
            nxt = ring[(i_ + 1) % len(ring)]
            deps = [d for d in p[2] if d != "unknown_dep"]
            if nxt not in deps:
                deps.append(nxt)
            deps.insert(deps.index(nxt), "unknown_dep")
            p[2] = deps
        ws.features.add(("ring_with_unknown_first",))
    # some of a conftest's fixtures live in a helper module that the conftest star-imports (the others stay in the conftest
    # and may depend on them)
    helper_of = {}
    if unique and rng.random() < 0.4:
        confs = [f for f in files if f.endswith("conftest.py") and sum(1 for q in placed if q[1] == f) >= 2]
        if confs:
            cf = rng.choice(confs)
            hp = os.path.join(os.path.dirname(cf), "ghelpers.py")
            mine = [q for q in placed if q[1] == cf]
            for q in rng.sample(mine, max(1, len(mine) // 2)):
                q[1] = hp
            files[hp] = []
            helper_of[cf] = "from .ghelpers import *\n"
            ws.features.add(("conftest_imports_helper",))
    for nm, f, deps, scope in placed:
        files[f].append(fx(nm, deps, scope, variant=rng.randint(0, 13)))
    for f, parts in files.items():
        body = helper_of.get(f, "") + HDR + "".join(parts)
        if os.path.basename(f).startswith("test_"):
            body += "def test_t(" + ", ".join(rng.sample(names, min(2, len(names)))) + "):\n    pass\n"
        ws.files[f] = body
    ws.spec = {"unique": unique, "placed": [(a, b, c, d) for a, b, c, d in placed], "depth": 2, "names": names}
    return ws


def directed_graph_ws(root):
    """everything in one conftest (nothing excusable): a ring and a self-loop whose members request an unknown name before
    the parameter that continues the cycle, a diamond, and narrower-scoped dependencies"""
    ws = gen.WS(root)
    placed = [["ra", "conftest.py", ["unknown_dep", "rb"], "function"], ["rb", "conftest.py", ["leaf", "rc"], "function"],
              ["rc", "conftest.py", ["unknown_dep", "ra"], "function"], ["selfish", "conftest.py", ["unknown_dep", "selfish"], "function"],
              ["leaf", "conftest.py", [], "function"], ["top", "conftest.py", ["d1", "d2"], "session"],
              ["d1", "conftest.py", ["leaf"], "module"], ["d2", "conftest.py", ["leaf"], "session"]]
    ws.files = {"conftest.py": HDR + "".join(fx(n_, d_, s_) for n_, _, d_, s_ in placed),
                "test_mod.py": "def test_t(ra, top):\n    pass\n"}
    ws.spec = {"unique": True, "placed": [tuple(p) for p in placed], "depth": 0, "names": [p[0] for p in placed], "directed": True}
    return ws


def directed_graph_ws2(root):
    """one conftest again: disjoint two-member cycles whose sorted member names concatenate to the same string
    ({a, ab} / {aa, b}; {db, db_session} / {dbdb_, session}) - every one of them must be reported - and several fixtures of
    one broader scope sharing one narrower dependency (each of them is a mismatch of its own)"""
    ws = gen.WS(root)
    placed = [["a", "conftest.py", ["ab"], "function"], ["ab", "conftest.py", ["a"], "function"],
              ["aa", "conftest.py", ["b"], "function"], ["b", "conftest.py", ["aa"], "function"],
              ["db", "conftest.py", ["db_session"], "function"], ["db_session", "conftest.py", ["db"], "function"],
              ["dbdb_", "conftest.py", ["session"], "function"], ["session", "conftest.py", ["dbdb_"], "function"],
              ["narrow", "conftest.py", [], "function"], ["s1", "conftest.py", ["narrow"], "session"],
              ["s2", "conftest.py", ["narrow"], "session"], ["s3", "conftest.py", ["narrow"], "session"],
              ["m1", "conftest.py", ["narrow"], "module"], ["m2", "conftest.py", ["narrow"], "module"]]
    ws.files = {"conftest.py": HDR + "".join(fx(n_, d_, s_) for n_, _, d_, s_ in placed),
                "test_mod.py": "def test_t(a, aa, db, dbdb_, s1, s2, s3, m1, m2):\n    pass\n"}
    ws.spec = {"unique": True, "placed": [tuple(p) for p in placed], "depth": 0, "names": [p[0] for p in placed], "directed": 2}
    return ws


def tarjan(nodes, succ):
    index, low, on, st, out, idx = {}, {}, set(), [], [], [0]

    def sc(v):
        index[v] = low[v] = idx[0]; idx[0] += 1
        st.append(v); on.add(v)
        for w in succ.get(v, []):
            if w not in index:
                sc(w); low[v] = min(low[v], low[w])
            elif w in on:
                low[v] = min(low[v], index[w])
        if low[v] == index[v]:
            comp = []
            while True:
                w = st.pop(); on.discard(w); comp.append(w)
                if w == v:
                    break
            out.append(comp)
    for v in nodes:
        if v not in index:
            sc(v)
    return out


def def_graph(model):
    """nodes (file, line); edges resolved from the depending fixture's file"""
    nodes, succ, info = [], {}, {}
    for f, m in model.models.items():
        if not m.ok:
            continue
        for d in m.defs:
            v = (f, d["line"])
            nodes.append(v)
            info[v] = d
            succ[v] = []
            for dep in d["deps"]:
                r = model.resolve(f, dep, (f, d["line"]) if dep == d["name"] else None)
                if r is not None and r[0] == "def":
                    succ[v].append((r[1], r[2]["line"]))
                elif r is None and dep == d["name"]:
                    succ[v].append(v)       # requests its own name and nothing outward provides it: pytest's recursion error
    return nodes, succ, info


def name_graph(raw):
    g = {}
    for nm, defs in raw["definitions"].items():
        if defs:
            g[nm] = [d for d in defs[0]["deps"] if d in raw["definitions"]]
    return g


def closed_in(path, g):
    """path = [a, b, ..., a] ; every step an edge of g"""
    if len(path) < 2 or path[0] != path[-1]:
        return False
    return all(path[i + 1] in g.get(path[i], []) for i in range(len(path) - 1))


def real_in_def_graph(path, succ, info):
    """is there a closed walk in the definition-level graph whose names follow path?"""
    starts = [v for v, d in info.items() if d["name"] == path[0]]
    for s in starts:
        frontier = {s}
        for nm in path[1:]:
            frontier = {w for v in frontier for w in succ.get(v, []) if info[w]["name"] == nm}
            if not frontier:
                break
        if s in frontier:
            return True
    return False


def judge(ctx, ws, model, raw, q, how):
    nodes, succ, info = def_graph(model)
    sccs = [c for c in tarjan(nodes, succ) if len(c) > 1 or c[0] in succ.get(c[0], [])]
    ng = name_graph(raw)
    multi = {n for n, d in raw["definitions"].items() if len(d) >= 2}
    reported = [c["path"] for c in q["cycles"]]
    # fixtures that request a name which exists somewhere but is not visible from their file: the name-level
    # graph has an edge there, the real dependency graph does not
    inv = set()
    for v, d in info.items():
        for dep in d["deps"]:
            if dep in raw["definitions"] and model.resolve(v[0], dep, v if dep == d["name"] else None) is None:
                inv.add(d["name"])
    ok_reported = []
    for p in reported:
        ctx.judged()
        if not closed_in(p, ng):
            ctx.violation({"kind": "reported-cycle-is-not-a-closed-chain", "path": p, "how": how[0]},
                          {"name_graph": {k: v for k, v in ng.items() if k in p}, "spec": ws.spec}, files=ws.files)
            continue
        if real_in_def_graph(p, succ, info):
            ok_reported.append(p)
            continue
        # closed in the implementation's own graph but not a dependency chain pytest would see
        if (set(p) & (multi | inv)) and ctx.known(KF_NAME_GRAPH):
            ctx.count("kf_unreal_cycle")
            continue
        ctx.violation({"kind": "reported-cycle-is-not-a-real-dependency-chain", "path": p, "how": how[0]}, {"spec": ws.spec}, files=ws.files)
    for comp in sccs:
        cn = {info[v]["name"] for v in comp}
        ctx.judged()
        covered = any(set(p) <= cn for p in ok_reported)
        if covered:
            ctx.nontrivial(("scc", len(comp), len(cn & multi) > 0, ws.spec["unique"]))
            continue
        # does the implementation's own graph contain a cycle among these names at all?
        # the implementation's DFS works on the name-level graph: extra (invisible / shadowed) edges anywhere in the
        # name-level component that contains this SCC change which cycles it finds and which it prunes as visited
        comp_names = set(cn)
        for c in tarjan(list(ng), ng):
            if set(c) & cn:
                comp_names |= set(c)
        if (comp_names & (multi | inv)) and ctx.known(KF_NAME_GRAPH):
            ctx.count("kf_missed_cycle")
            continue
        ctx.violation({"kind": "dependency-cycle-not-reported", "names": sorted(cn), "how": how[0]},
                      {"reported": reported, "spec": ws.spec}, files=ws.files)
    # ---- scope mismatches: exact ---------------------------------------------------------------------------
    exp = set()
    for v, d in info.items():
        for dep in d["deps"]:
            r = model.resolve(v[0], dep, v if dep == d["name"] else None)
            if r is not None and r[0] == "def":
                if SCOPES.index(d["scope"]) > SCOPES.index(r[2]["scope"]):
                    exp.add((v[0], v[1], d["name"], dep, r[1], r[2]["line"]))
    got = set()
    for f, lst in q["mismatches"].items():
        for m in lst:
            got.add((m["fixture"][0], m["fixture"][1], m["fixture"][2], m["dep"][2], m["dep"][0], m["dep"][1]))
    ctx.judged(max(1, len(exp | got)))
    # a file with two same-named definitions: only the first is examined by the implementation (don't-care: redefinition)
    if exp != got:
        ctx.violation({"kind": "scope-mismatch-set", "missing": sorted(exp - got)[:3], "unexpected": sorted(got - exp)[:3], "how": how[0]},
                      {"spec": ws.spec}, files=ws.files)
    for e in exp:
        ctx.nontrivial(("mismatch", e[2] == e[3], len(raw["definitions"].get(e[3], [])) > 1))
    return ({tuple(norm_cycle_path(p)) for p in reported},
            {(tuple(norm_cycle_path(c["path"])), tuple(c["anchor"])) for c in q["cycles"]}, got)


def run(ctx):
    quick = ctx.tier == "quick"
    n = 60 if quick else 3000
    K = 5 if quick else 12
    ctx.rule = ("generated dependency graphs over 4-9 names spread over conftest levels and test modules (unique-name and "
                "colliding-name modes, self-loops with/without parent, unknown and invisible dependencies, all five scopes); each "
                "judged for K analysis orders on fresh databases; distinct = (SCC size, collisions, mode) and mismatch classes")
    vh = VH(vh_bin(), locklog=os.path.join(ctx.scratch_root, "lock_vh.log"))
    try:
        pinned(ctx, vh)
        if os.environ.get("VERIF_ONLY_PINNED"):
            return
        concurrent_cycles(ctx, 300 if quick else 30000)
        for i in range(n):
            root = ctx.scratch(f"g{i}")
            ws = directed_graph_ws(root) if i == 0 else directed_graph_ws2(root) if i == 1 else gen_graph_ws(root, ctx.rng, unique=(i % 2 == 0))
            write_tree(root, ws.files)
            model = ws.model()
            files = sorted(ws.py_files())
            seen = []
            for k in range(K):
                order = list(files)
                if k:
                    ctx.rng.shuffle(order)
                db = vh.new_db()
                vh.call(op="batch", cmds=[{"op": "analyze_fresh", "db": db, "path": ws.abs(r), "text": ws.files[r]} for r in order])
                raw = vh.call(op="raw", db=db)
                q = vh.call(op="queries", db=db, files=[ws.abs(r) for r in files])
                seen.append(judge(ctx, ws, model, raw, q, ("order", order)))
                vh.call(op="drop_db", db=db)
            # stability across runs
            ctx.judged()
            base = seen[0]
            multi_def = any(len([p for p in ws.spec["placed"] if p[0] == nm]) > 1 for nm in ws.spec["names"])
            for s in seen[1:]:
                if s[2] != base[2]:
                    ctx.violation({"kind": "scope-mismatches-vary-between-runs"}, {"a": sorted(base[2])[:4], "b": sorted(s[2])[:4], "spec": ws.spec}, files=ws.files)
                    break
                if s[0] != base[0] or s[1] != base[1]:
                    if multi_def and ctx.known(KF_NAME_GRAPH):
                        ctx.count("kf_order_dependent_cycles")
                    elif ctx.known(KF_HASH):
                        ctx.count("kf_hash_dependent_cycles")
                    else:
                        ctx.violation({"kind": "cycle-report-varies-between-runs"}, {"a": sorted(base[1]), "b": sorted(s[1]), "spec": ws.spec}, files=ws.files)
                    break
            ctx.sample({"spec": ws.spec})
            if i < (10 if quick else 60):
                server_diagnostics(ctx, ws, model)
            if i == 0:
                # directed: one fixture with several narrower dependencies, a hub with two cycles
                droot = ctx.scratch("directed")
                dws = gen.WS(droot)
                dws.files = {"conftest.py": HDR + fx("tmp_user", [], "function") + fx("tmp_db", [], "module") + fx("sess", [], "session")
                             + fx("app", ["tmp_user", "sess", "tmp_db"], "session") + fx("worker", ["app", "tmp_db", "tmp_user"], "package"),
                             "test_mod.py": "def test_t(app, worker):\n    pass\n"}
                dws.spec = {"directed": "several narrower dependencies on one fixture", "depth": 0, "names": []}
                write_tree(droot, dws.files)
                server_diagnostics(ctx, dws, dws.model())
                ctx.nontrivial(("directed_multi_mismatch",))
                shutil.rmtree(droot, ignore_errors=True)
                # directed: the narrower dependency reaches the document only through an import of its conftest.py, and that
                # conftest.py was opened and closed (its text is no longer cached) before the document is analysed
                droot = ctx.scratch("directed_closed")
                dws = gen.WS(droot)
                dws.files = {"conftest.py": "from .dhelpers import dep_d\nfrom .dstar import *\n",
                             "dhelpers.py": HDR + fx("dep_d", [], "function"),
                             "dstar.py": HDR + fx("dep_s", [], "class"),
                             "test_mod.py": HDR + fx("wide", ["dep_d"], "session") + fx("wide2", ["dep_s"], "module")
                             + "def test_t(wide, wide2):\n    pass\n"}
                dws.spec = {"directed": "importing conftest closed before the document is analysed", "depth": 0, "names": []}
                write_tree(droot, dws.files)
                server_diagnostics(ctx, dws, dws.model(), open_close_first=("conftest.py",))
                ctx.nontrivial(("directed_closed_importing_conftest",))
                shutil.rmtree(droot, ignore_errors=True)
            ctx.count("graphs")
            shutil.rmtree(root, ignore_errors=True)
    finally:
        vh.close()


def concurrent_cycles(ctx, count):
    """the memoised cycle report is computed by one request while an edit that closes a ring completes on another thread;
    at quiescence the report must contain the ring (interleavings from the serialising scheduler, shard-lock granularity)"""
    import json as _j
    D = "/vf_c16/pkg"
    conf, test = f"{D}/conftest.py", f"{D}/test_t.py"
    open_chain = HDR + fx("ra", ["rb"], "function") + fx("rb", ["rc"], "function") + fx("rc", [], "function") + fx("lone", [], "function")
    ring = HDR + fx("ra", ["rb"], "function") + fx("rb", ["rc"], "function") + fx("rc", ["ra"], "function") + fx("lone", [], "function")
    setup = [{"op": "analyze", "db": 0, "path": conf, "text": open_chain}, {"op": "analyze", "db": 0, "path": test, "text": "def test_t(ra):\n    pass\n"}]
    threads = [[{"op": "analyze", "db": 0, "path": conf, "text": ring}],
               [{"op": "cycles", "db": 0}, {"op": "cycles", "db": 0}],
               [{"op": "cycles_in_file", "db": 0, "path": conf}]]
    after = [{"op": "cycles", "db": 0, "observe": True}, {"op": "cycles_in_file", "db": 0, "path": conf, "observe": True}]
    vh = VH(vh_bin(), locklog=os.path.join(ctx.scratch_root, "lock_vh_cc.log"), env={"VERIF_SHARDS": "2"})
    try:
        for mode, pct in (("uniform", None), ("pct2", 2)):
            r = vh.call(op="sched_scenario", setup=setup, threads=threads, after=after, seed=ctx.seed * 17 + 1, count=count, pct=pct, est=200, timeout=1800)
            if isinstance(r, dict) and r.get("sched_deadlock"):
                # every thread of the scenario is blocked on a map lock held by another: no outcome at all
                ctx.violation({"kind": "deadlock-under-scheduler", "where": "c16"}, {"detail": str(r.get("detail", ""))[:1500]})
                break
            if "distinct_schedules" not in r:
                raise Inconclusive(f"harness refused the scenario: {str(r)[:300]}")
            ctx.judged(count)
            for o in r["outcomes"]:
                obs = o["index"].split(";;OBS=", 1)[-1]
                seen = []
                for part in obs.split("|{"):
                    part = part if part.startswith("{") else "{" + part
                    try:
                        v = _j.loads(part)
                    except Exception:
                        continue
                    if "cycles" in v:
                        seen.append({frozenset(c["path"]) for c in v["cycles"]})
                if len(seen) != 2:
                    raise Inconclusive("observation could not be decoded: " + obs[:200])
                if not all(frozenset({"ra", "rb", "rc"}) in s_ for s_ in seen):
                    ctx.violation({"kind": "cycle-closed-by-a-concurrent-edit-not-reported-afterwards", "mode": mode},
                                  {"seed": o["first_seed"], "count": o["count"], "reported": [sorted(map(sorted, s_)) for s_ in seen]})
            ctx.nontrivial(("concurrent_cycles", mode, r["distinct_schedules"] > 10))
    finally:
        vh.close()


def server_diagnostics(ctx, ws, model, open_close_first=()):
    """published circular-dependency / scope-mismatch diagnostics on the real server; `open_close_first`: documents that are
    opened and closed again (unchanged) before anything is judged - closing a document must be invisible"""
    srv = LSP(srv_bin(), ws.root, locklog=os.path.join(ctx.scratch_root, "lock_srv.log"))
    try:
        srv.initialize()
        nodes, succ, info = def_graph(model)
        for rel in open_close_first:
            before = srv.seq
            srv.did_open(ws.abs(rel), ws.files[rel])
            srv.wait_diagnostics(ws.abs(rel), before, timeout=20)
            srv.did_close(ws.abs(rel))
            srv.pump(0.05)
        for rel in ws.py_files():
            if rel in open_close_first:
                continue          # stays closed
            f = ws.abs(rel)
            before = srv.seq
            srv.did_open(f, ws.files[rel])
            diags = srv.wait_diagnostics(f, before, timeout=20)
            if diags is None:
                raise Inconclusive("no diagnostics")
            exp = set()
            for v, d in info.items():
                if v[0] != f:
                    continue
                for dep in d["deps"]:
                    r = model.resolve(f, dep, v if dep == d["name"] else None)
                    if r is not None and r[0] == "def" and SCOPES.index(d["scope"]) > SCOPES.index(r[2]["scope"]):
                        exp.add((d["line"] - 1, f"{d['scope']}-scoped fixture '{d['name']}' depends on {r[2]['scope']}-scoped fixture '{dep}'"))
            for x in diags:
                if x.get("code") == "circular-dependency":
                    first = x["message"].split(": ", 1)[1].split(" → ")[0] if ": " in x["message"] else None
                    ln = x["range"]["start"]["line"] + 1
                    ctx.judged()
                    if not any(d_["name"] == first and d_["line"] == ln for d_ in model.models[f].defs):
                        ctx.violation({"kind": "cycle-diagnostic-not-anchored-at-a-definition-of-the-document", "file": rel, "name": first, "line": ln},
                                      {"message": x["message"], "spec": ws.spec}, files=ws.files)
            got = {(x["range"]["start"]["line"], x["message"]) for x in diags if x.get("code") == "scope-mismatch"}
            ctx.judged()
            if exp != got:
                ctx.violation({"kind": "published-scope-mismatch", "file": rel, "missing": sorted(exp - got)[:3], "unexpected": sorted(got - exp)[:3]},
                              {"spec": ws.spec}, files=ws.files)
        ctx.count("server_sessions")
    finally:
        srv.shutdown()


def pinned(ctx, vh):
    from ..witness import WITNESS, ws_from_witness
    for kf_id, reps in ((KF_NAME_GRAPH, 1), (KF_HASH, 16)):
        w = WITNESS[kf_id]
        ws = ws_from_witness(ctx, w)
        model = ws.model()
        files = sorted(ws.py_files())
        seen = []
        for k in range(reps):
            db = vh.new_db()
            vh.call(op="batch", cmds=[{"op": "analyze_fresh", "db": db, "path": ws.abs(r), "text": ws.files[r]} for r in w["order"]])
            raw = vh.call(op="raw", db=db)
            q = vh.call(op="queries", db=db, files=[ws.abs(r) for r in files])
            seen.append(judge(ctx, ws, model, raw, q, ("pinned", w["order"])))
            vh.call(op="drop_db", db=db)
        if kf_id == KF_HASH:
            ctx.judged()
            if any(s_[0] != seen[0][0] or s_[1] != seen[0][1] for s_ in seen[1:]):
                ctx.known(KF_HASH) and ctx.count("kf_hash_dependent_cycles")
        shutil.rmtree(ws.root, ignore_errors=True)
