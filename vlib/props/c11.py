"""C11 — no input or request sequence crashes or wedges the server.

Monitor: trace checker + catch_unwind + exit status.
  (1) real server: hostile documents, histories whose last version is unparsable (stale recorded
      positions), every request kind at hostile positions: exactly one response per request, server
      log without 'panicked', shutdown answered, clean exit;
  (2) library entry points under catch_unwind with the same inputs (attributes a panic to a call);
  (3) CLI and scan isolation: a workspace with hostile files / plugin metadata / pyproject.toml is
      scanned, the CLI exits 0/1 without panicking and the good file's fixture is still there;
  thorough tier: the same workload on an AddressSanitizer build and under valgrind memcheck.
"""
import os, shutil, subprocess

from .. import hostile, build
from ..cli import run_cli
from ..common import Inconclusive, write_tree, hash_str
from ..lsp import LSP, uri_to_path
from ..pymodel import FileModel
from ..reqs import all_position_requests, all_document_requests
from ..runner import vh_bin, srv_bin
from ..vh import VH, VHDied


def check_server_end(ctx, srv, label, files=None):
    un = srv.unanswered()
    answered, rc, err = srv.shutdown()
    ok = True
    if un:
        ctx.violation({"kind": "request-unanswered", "doc": label, "method": un[0]["method"]},
                      {"params": str(un[0]["params"])[:300], "n_unanswered": len(un), "stderr": err[-1200:], "exit": rc}, files=files)
        ok = False
    elif "panicked at" in err or "stack overflow" in err or "AddressSanitizer" in err:
        ctx.violation({"kind": "panic-in-server-log", "doc": label}, {"stderr": err[-1500:], "exit": rc}, files=files)
        ok = False
    elif not answered or rc not in (0,):
        ctx.violation({"kind": "unclean-shutdown", "doc": label}, {"shutdown_answered": answered, "exit": rc, "stderr": err[-800:]}, files=files)
        ok = False
    return ok


def hammer(ctx, srv, f, text, rng, diags):
    n = 0
    for (l, c) in hostile.positions(text, rng, limit=14):
        for r in all_position_requests(srv, f, l, c, timeout=40):
            n += 1
            if not r["answered"]:
                return n, False
    for r in all_document_requests(srv, f, timeout=40, diagnostics=diags):
        n += 1
        if not r["answered"]:
            return n, False
    # hostile ranges for inlay hints / code actions
    for rng_ in ({"start": {"line": 0, "character": 0}, "end": {"line": 2 ** 32 - 1, "character": 2 ** 32 - 1}},
                 {"start": {"line": 2 ** 32 - 1, "character": 0}, "end": {"line": 0, "character": 0}}):
        r = srv.doc_request("textDocument/inlayHint", f, extra={"range": rng_}, timeout=40)
        n += 1
        if not r["answered"]:
            return n, False
        fake = {"range": rng_, "code": "undeclared-fixture", "message": "x", "severity": 2, "source": "pytest-lsp"}
        r = srv.code_action(f, rng_, [fake], timeout=40)
        n += 1
        if not r["answered"]:
            return n, False
    return n, True


def server_doc_session(ctx, label, text, rng, binary=None):
    root = ctx.scratch("doc")
    write_tree(root, {"conftest.py": hostile.GOOD_CONFTEST, "pkg/test_h.py": "", "pkg/conftest.py": ""})
    f = os.path.join(root, "pkg", "test_h.py")
    cf = os.path.join(root, "pkg", "conftest.py")
    srv = LSP(binary or srv_bin(), root, locklog=os.path.join(ctx.scratch_root, "lock_srv.log"))
    total = 0
    try:
        srv.initialize()
        for target in (f, cf):
            before = srv.seq
            srv.did_open(target, text)
            diags = srv.wait_diagnostics(target, before, timeout=40)
            n, ok = hammer(ctx, srv, target, text, rng, diags or [])
            total += n
            if not ok:
                break
            # stale positions: versions that do not parse and move every recorded column
            for bv in hostile.break_versions(text, rng)[: (3 if ctx.tier == "quick" else 9)]:
                before = srv.seq
                srv.did_change(target, bv)
                d2 = srv.wait_diagnostics(target, before, timeout=40)
                # positions recorded for the valid version, applied to the broken text
                m = FileModel(text)
                if m.ok:
                    for u in m.usages[:6]:
                        for r in all_position_requests(srv, target, u["line"] - 1, u["start_b"], timeout=40):
                            total += 1
                n, ok = hammer(ctx, srv, target, bv, rng, diags or [])
                total += n
                if not ok:
                    break
            srv.did_close(target)
    finally:
        ctx.judged(total)
        ctx.count("server_requests", total)
        good = check_server_end(ctx, srv, label, files={"doc.py": text})
        shutil.rmtree(root, ignore_errors=True)
    return good


def library_doc(ctx, vh, label, text, rng):
    """same inputs through the library entry points; a panic is reported with its location"""
    paths = ["/vf_c11/pkg/test_h.py", "/vf_c11/pkg/conftest.py"]
    db = vh.new_db()
    calls = 0
    for p in paths:
        seqs = [text] + hostile.break_versions(text, rng)[: (2 if ctx.tier == "quick" else 9)]
        m = FileModel(text)
        for t in seqs:
            cmds = [{"op": "analyze", "db": db, "path": p, "text": t}]
            pos = hostile.positions(t, rng, limit=10)
            if m.ok:
                pos += [(u["line"] - 1, u["start_b"]) for u in m.usages[:6]]
            for (l, c) in pos:
                l = min(l, 2 ** 32 - 1); c = min(c, 2 ** 32 - 1)
                for op in ("goto", "goto_or_def", "fixture_at", "completion_ctx"):
                    cmds.append({"op": op, "db": db, "path": p, "line": l, "char": c})
                cmds.append({"op": "insertion", "db": db, "path": p, "line": min(l + 1, 2 ** 31)})
                cmds.append({"op": "containing_function", "db": db, "path": p, "line": min(l + 1, 2 ** 31)})
            cmds += [{"op": "queries", "db": db}, {"op": "available", "db": db, "path": p}, {"op": "imported", "db": db, "path": p},
                     {"op": "undeclared", "db": db, "path": p}, {"op": "mismatches", "db": db, "path": p}, {"op": "close", "db": db, "path": p}]
            try:
                res = vh.call(op="batch", cmds=cmds, timeout=25 if len(t) < 20000 else 120)["results"]
            except TimeoutError:
                ctx.violation({"kind": "library-call-did-not-terminate", "doc": label},
                              {"note": "a batch of analyze + position queries exceeded the watchdog (normally milliseconds)",
                               "text": t[:300]}, files={"doc.py": text, "current.py": t})
                vh.kill()
                raise VHDied("killed after watchdog", None, "")
            calls += len(cmds)
            for c_, r in zip(cmds, res):
                if isinstance(r, dict) and "panic" in r:
                    ctx.violation({"kind": "panic-in-library-entry-point", "op": c_["op"], "location": r.get("location")},
                                  {"panic": r["panic"][:300], "doc": label, "cmd": {k: (v if k != "text" else v[:200]) for k, v in c_.items()}},
                                  files={"doc.py": text, "broken.py": t})
    vh.call(op="drop_db", db=db)
    ctx.judged(calls)
    ctx.count("library_calls", calls)


def run(ctx):
    quick = ctx.tier == "quick"
    ctx.rule = ("hostile documents (unicode classes, line endings, docstring indentation mixes, long/deep constructs, malformed "
                "marks) x histories ending unparsable (stale columns inside multi-byte characters / past EOL / vanished lines) x "
                "all request kinds at hostile positions incl. u32 extremes; hostile plugin metadata and pyproject.toml; "
                "distinct = hostile document / metadata classes exercised")
    docs = hostile.docs(ctx.rng, thorough=not quick)
    ctx.rng.shuffle(docs)
    n_srv = 18 if quick else len(docs)
    vh = VH(vh_bin(), locklog=os.path.join(ctx.scratch_root, "lock_vh.log"))
    try:
        for i, (label, text) in enumerate(docs):
            try:
                library_doc(ctx, vh, label, text, ctx.rng)
            except VHDied as e:
                if e.returncode is not None:
                    ctx.violation({"kind": "library-process-died", "doc": label, "status": e.returncode},
                                  {"stderr": e.stderr[-1500:]}, files={"doc.py": text})
                vh = VH(vh_bin())
            ctx.nontrivial(("doc", label.rstrip("0123456789_")))
            if i < n_srv or label in ("chain_1500", "nested_150", "long_line", "many_lines", "inlay_targets", "diamond_ladder_40") or \
                    (label.startswith("typing_") and hash_str(label) % 5 == 0):
                server_doc_session(ctx, label, text, ctx.rng)
        ctx.sample({"doc": docs[0][0], "text": docs[0][1][:300]})
    finally:
        try:
            vh.close()
        except Exception:
            pass
    protocol_edges(ctx)
    many_files(ctx)
    metadata_and_scan_isolation(ctx)
    lock_facts(ctx)
    dev_build_pass(ctx, docs, quick)
    if not quick:
        sanitizer_pass(ctx, docs)


def lock_facts(ctx):
    """what the lock monitor of the instrumented DashMap saw during the hostile sessions above: a request that takes a map lock
    it already holds in a conflicting mode, or two code paths that nest two maps in opposite orders, can wedge the server
    under the right timing even if it did not in this run"""
    import glob
    from ..locklog import LockFacts
    facts = LockFacts()
    logs = sorted(glob.glob(os.path.join(ctx.scratch_root, "lock_*.log")))
    for l in logs:
        facts.load(l)
    ctx.judged(max(1, len(facts.edges)))
    for c in facts.conflicts:
        ctx.violation({"kind": "conflicting-reentrancy-on-a-map-lock", "map": c["map"].split(":", 1)[-1][:80], "held": c["held_mode"], "req": c["req_mode"]},
                      {"same_shard": c["same_shard"], "backtrace": c.get("bt", "")[:1500]})
    for cyc in facts.conflicting_cycles():
        ctx.violation({"kind": "conflicting-lock-order-cycle", "cycle": cyc}, {"edges": [k for k in facts.edges if k[0] in [n for n, _ in cyc]]})
    ctx.extra["lock_edges_seen"] = len(facts.edges)
    if facts.edges:
        ctx.nontrivial(("lock_edges_observed",))


def protocol_edges(ctx):
    """legal-but-unusual and malformed notification / request sequences; after each one a hover must still be answered"""
    from ..lsp import path_to_uri
    root = ctx.scratch("proto")
    good = "import pytest\n\n@pytest.fixture\ndef loc(good_fixture):\n    return 1\n\ndef test_p(loc, good_fixture):\n    x = good_fixture\n"
    write_tree(root, {"conftest.py": hostile.GOOD_CONFTEST, "pkg/test_p.py": good, "pkg/test_never_opened.py": good})
    f = os.path.join(root, "pkg", "test_p.py")
    g = os.path.join(root, "pkg", "test_never_opened.py")
    ghost = os.path.join(root, "pkg", "test_does_not_exist.py")
    uri = path_to_uri(f)
    srv = LSP(srv_bin(), root, locklog=os.path.join(ctx.scratch_root, "lock_srv.log"))
    steps = [
        ("didChange_empty_contentChanges", lambda: srv.notify("textDocument/didChange", {"textDocument": {"uri": uri, "version": 2}, "contentChanges": []})),
        ("didChange_two_entries", lambda: srv.notify("textDocument/didChange", {"textDocument": {"uri": uri, "version": 3},
                                                                               "contentChanges": [{"text": "x = 1\n"}, {"text": good}]})),
        ("didChange_never_opened", lambda: srv.notify("textDocument/didChange", {"textDocument": {"uri": path_to_uri(g), "version": 7}, "contentChanges": [{"text": good}]})),
        ("didChange_missing_file", lambda: srv.notify("textDocument/didChange", {"textDocument": {"uri": path_to_uri(ghost), "version": 1}, "contentChanges": [{"text": good}]})),
        ("didClose_never_opened", lambda: srv.notify("textDocument/didClose", {"textDocument": {"uri": path_to_uri(ghost)}})),
        ("didOpen_twice", lambda: (srv.did_open(f, good), srv.did_open(f, good))),
        ("didClose_twice", lambda: (srv.did_close(f), srv.did_close(f), srv.did_open(f, good))),
        ("didSave", lambda: srv.notify("textDocument/didSave", {"textDocument": {"uri": uri}})),
        ("didChange_incremental_shape", lambda: srv.notify("textDocument/didChange", {"textDocument": {"uri": uri, "version": 9}, "contentChanges": [
            {"range": {"start": {"line": 0, "character": 0}, "end": {"line": 0, "character": 6}}, "text": "import"}]})),
        ("restore", lambda: srv.did_change(f, good)),
        ("untitled_uri", lambda: srv.notify("textDocument/didOpen", {"textDocument": {"uri": "untitled:Untitled-1", "languageId": "python", "version": 1, "text": good}})),
        ("untitled_requests", lambda: [srv.request(m, {"textDocument": {"uri": "untitled:Untitled-1"}, "position": {"line": 3, "character": 9}}, timeout=30)
                                        for m in ("textDocument/hover", "textDocument/definition", "textDocument/completion", "textDocument/references")]),
        ("odd_uris", lambda: [srv.request("textDocument/hover", {"textDocument": {"uri": u_}, "position": {"line": 0, "character": 0}}, timeout=30)
                               for u_ in ("", "file://", "file:///", "http://example.com/x.py", uri + "%20", uri.replace("test_p", "test%5Fp"), "file:///" + "a" * 5000 + ".py")]),
        ("unknown_request", lambda: srv.request("textDocument/doesNotExist", {"x": 1}, timeout=30)),
        ("cancel_unknown", lambda: srv.notify("$/cancelRequest", {"id": 999999})),
        ("unknown_notification", lambda: srv.notify("custom/notification", {"a": [1, 2, 3]})),
        ("watched_files", lambda: srv.notify("workspace/didChangeWatchedFiles", {"changes": [{"uri": uri, "type": 2}, {"uri": path_to_uri(ghost), "type": 3}]})),
        ("configuration", lambda: srv.notify("workspace/didChangeConfiguration", {"settings": {"pytest": None}})),
        ("huge_symbol_query", lambda: srv.workspace_symbol("f" * 100000)),
        ("execute_command", lambda: srv.request("workspace/executeCommand", {"command": "nope", "arguments": [None]}, timeout=30)),
    ]
    n = 0
    try:
        srv.initialize()
        srv.did_open(f, good)
        for name, act in steps:
            act()
            r = srv.hover(f, 6, 12, timeout=40)
            n += 1
            ctx.judged()
            if not r["answered"]:
                ctx.violation({"kind": "server-stops-answering-after-message", "message": name},
                              {"stderr": srv.stderr_text()[-1200:]})
                break
            ctx.nontrivial(("protocol_edge", name))
    finally:
        ctx.count("protocol_edge_steps", n)
        check_server_end(ctx, srv, "protocol_edges")
        shutil.rmtree(root, ignore_errors=True)


def many_files(ctx):
    """more analysed files than the text cache holds (the eviction path) in one library process, then queries"""
    vh = VH(vh_bin(), locklog=os.path.join(ctx.scratch_root, "lock_vh_many.log"))
    try:
        db = vh.new_db()
        cmds = [{"op": "analyze", "db": db, "path": f"/vf_c11/many/test_m{i}.py", "text": "import pytest\n\n@pytest.fixture\ndef fx_%d():\n    return 1\n\ndef test_m(fx_%d):\n    pass\n" % (i, i)}
                for i in range(2200)]
        try:
            r = vh.call(op="batch", cmds=cmds, timeout=180)
            a = vh.call(op="available", db=db, path="/vf_c11/many/test_m5.py", timeout=60)
            ctx.judged(2201)
            if any("panic" in x for x in r["results"]) or "panic" in a:
                ctx.violation({"kind": "panic-with-many-files"}, {"first": [x for x in r["results"] if "panic" in x][:1]})
        except TimeoutError as e:
            ctx.violation({"kind": "library-operation-did-not-return", "workload": "2200 analysed files"}, {"err": str(e), "stderr": vh.stderr_text()[-800:]})
        except VHDied as e:
            ctx.violation({"kind": "library-process-died", "workload": "2200 analysed files", "status": e.returncode}, {"stderr": e.stderr[-1200:]})
        ctx.nontrivial(("many_files",))
    finally:
        try:
            vh.close()
        except Exception:
            pass


def metadata_and_scan_isolation(ctx):
    cases = hostile.metadata_cases()
    # hostile python files next to a good one
    for label, text in hostile.docs(ctx.rng)[:: (6 if ctx.tier == "quick" else 1)]:
        cases["scan_with_" + label] = {"conftest.py": hostile.GOOD_CONFTEST, "test_good.py": hostile.GOOD_TEST,
                                       "zz/test_hostile.py": text, "zz/conftest.py": text, "aa/hostile_test.py": text}
    for label, files in cases.items():
        root = ctx.scratch("meta")
        write_tree(root, files)
        try:
            os.symlink("/nonexistent/target", os.path.join(root, "test_dangling.py"))
            os.symlink(root, os.path.join(root, "loop_dir"))
        except OSError:
            pass
        try:
            for args in (["fixtures", "list", root], ["fixtures", "unused", root, "--format", "json"], ["fixtures", "unused", root]):
                try:
                    rc, out, err = run_cli(srv_bin(), args, timeout=120)
                except subprocess.TimeoutExpired:
                    ctx.violation({"kind": "cli-did-not-terminate", "case": label, "args": args[1]}, {}, files=files)
                    continue
                ctx.judged()
                if rc not in (0, 1) or "panicked" in err or "overflow" in err:
                    ctx.violation({"kind": "cli-crashed", "case": label, "args": args[1]}, {"rc": rc, "stderr": err[-1200:]}, files=files)
                elif args[1] == "list" and "good_fixture" not in out:
                    ctx.violation({"kind": "scan-not-isolated", "case": label}, {"out": out[-600:], "stderr": err[-600:]}, files=files)
            srv = LSP(srv_bin(), root, locklog=os.path.join(ctx.scratch_root, "lock_srv.log"))
            try:
                srv.initialize(timeout=90)
                r = srv.definition(os.path.join(root, "test_good.py"), 0, 16)
                ctx.judged()
                res = r.get("result")
                scan_ok = any("scan complete" in l for l in srv.logs)
                if not scan_ok:
                    ctx.violation({"kind": "workspace-scan-failed", "case": label}, {"logs": srv.logs[-3:], "stderr": srv.stderr_text()[-800:]}, files=files)
                elif not r["answered"] or not res or not uri_to_path((res[0] if isinstance(res, list) else res)["uri"]).endswith("conftest.py"):
                    ctx.violation({"kind": "good-file-lost-after-hostile-scan", "case": label}, {"result": res, "stderr": srv.stderr_text()[-600:]}, files=files)
                for fn in ("pyproject.toml",):
                    pass
            finally:
                check_server_end(ctx, srv, label, files=None)
            ctx.nontrivial(("meta", label.rstrip("0123456789_")))
        finally:
            shutil.rmtree(root, ignore_errors=True)


def dev_build_pass(ctx, docs, quick):
    """debug assertions / overflow checks on: the same library calls on a dev build of the harness"""
    try:
        devb = vh_bin("dev")
    except build.BuildError as e:
        raise Inconclusive(f"dev build failed: {e}")
    vh = VH(devb, stack_mb=64)
    try:
        for label, text in docs[: (10 if quick else len(docs))]:
            if len(text) > 5000:
                continue
            try:
                library_doc(ctx, vh, "dev:" + label, text, ctx.rng)
            except VHDied as e:
                if e.returncode is not None:
                    ctx.violation({"kind": "library-process-died", "doc": "dev:" + label, "status": e.returncode},
                                  {"stderr": e.stderr[-1500:]}, files={"doc.py": text})
                vh = VH(devb, stack_mb=64)
        ctx.nontrivial(("dev_build_pass",))
    finally:
        try:
            vh.close()
        except Exception:
            pass


def sanitizer_pass(ctx, docs):
    try:
        asan_srv = build.build_srv_sanitizer("address")
        asan_vh = build.build_vh_sanitizer("address")
    except build.BuildError as e:
        ctx.extra["asan"] = "build failed: " + str(e)[:200]
        return
    os.environ.setdefault("ASAN_OPTIONS", "detect_leaks=0:halt_on_error=1")
    n = 0
    for label, text in docs[:25]:
        server_doc_session(ctx, "asan:" + label, text, ctx.rng, binary=asan_srv)
        n += 1
    ctx.extra["asan_server_sessions"] = n
    # valgrind memcheck on the release harness, small workload
    vg = VH(vh_bin(), wrapper=["valgrind", "--error-exitcode=99", "--quiet"])
    try:
        for label, text in docs[:6]:
            library_doc(ctx, vg, "memcheck:" + label, text[:5000], ctx.rng)
    finally:
        rc, err = vg.close()
        if rc == 99 or "Invalid read" in err or "Invalid write" in err:
            ctx.violation({"kind": "memcheck-error"}, {"stderr": err[-2000:]})
    ctx.extra["memcheck_docs"] = 6
