"""C09 — concurrent analysis of different files is isolated.

Monitor: quiescent-state checker under the serialising scheduler of the instrumented DashMap.
Two or three analyses / re-analyses of distinct files that share fixture names run on registered
threads; at every shard-lock operation a seeded PRNG (uniform, or PCT priorities) decides who runs
next.  After quiescence the index (definitions, file_definitions, usages, usage_by_fixture as
multisets) must equal the outcome of a sequential execution and satisfy the mirror invariants.
Plus: native threads with delay injection and 2 shards per map; thorough tier: ThreadSanitizer build
and Miri runs of the same scenarios.
"""
import itertools, json, os, subprocess

from ..common import Inconclusive, hash_str
from ..runner import vh_bin
from ..vh import VH, VHDied
from .. import build

D = "/vf_c09/pkg"
A, B, C = f"{D}/test_a.py", f"{D}/test_b.py", f"{D}/conftest.py"

A1 = "import pytest\n\n@pytest.fixture\ndef shared():\n    return 1\n\n@pytest.fixture\ndef only_a(shared):\n    return 1\n\ndef test_a(shared, other, only_a):\n    pass\n"
A2 = "def test_a2():\n    pass\n"
A3 = "import pytest\n\n@pytest.fixture\ndef other():\n    return 1\n\ndef test_a(other):\n    pass\n"
B1 = "import pytest\n\n@pytest.fixture\ndef shared():\n    return 2\n\n@pytest.fixture\ndef other(shared):\n    return 3\n\ndef test_b(shared, other):\n    pass\n"
B2 = "x = 1\n"
C1 = "import pytest\n\n@pytest.fixture\ndef shared():\n    return 0\n\n@pytest.fixture\ndef other():\n    return 0\n\n@pytest.mark.usefixtures(\"shared\", \"only_a\")\ndef test_c(other):\n    pass\n"


CONF = f"{D}/conftest.py"
CONF1 = "import pytest\n\n@pytest.fixture\ndef from_conf():\n    return 1\n\n@pytest.fixture\ndef from_conf2(from_conf):\n    return 2\n"
CONF2 = "# nothing left\nX = 1\n"


def an(path, text, fresh=False):
    return {"op": "analyze_fresh" if fresh else "analyze", "db": 0, "path": path, "text": text}


SCENARIOS = {
    "remove_last_def_vs_add": ([an(A, A1)], [[an(A, A2)], [an(B, B1, True)]]),
    "cold_index_three_fresh": ([], [[an(A, A1, True)], [an(B, B1, True)], [an(C, C1, True)]]),
    "two_removals_one_add": ([an(A, A1), an(B, B1)], [[an(A, A2)], [an(B, B2)], [an(C, C1)]]),
    # both definers of a name drop it at the same time and nobody adds one: whatever the interleaving, the name must be gone
    # (no empty entry left behind) - exactly as after the two removals in either sequential order
    "two_removals_of_a_shared_name": ([an(A, A1), an(B, B1)], [[an(A, A2)], [an(B, B2)]]),
    "reanalysis_same_content_pair": ([an(A, A1), an(B, B1)], [[an(A, A1)], [an(B, B1)]]),
    "edit_during_scan": ([an(A, A1, True)], [[an(A, A3)], [an(B, B1, True)], [an(C, C1, True)]]),
    "swap_owner_of_names": ([an(A, A1), an(B, B2)], [[an(A, A2)], [an(B, B1)]]),
    "usage_index_cleanup_vs_record": ([an(A, A1), an(C, C1)], [[an(A, A2)], [an(C, C1)], [an(B, B1, True)]]),
    # a re-analysis that records nothing (removes the last definitions of its names) overlaps with an analysis of another
    # file that records some, while a third thread asks the memoising queries; afterwards the queries are asked again
    "queries_during_overlapping_analyses": (
        [an(CONF, CONF1), an(A, A1)],
        [[an(CONF, CONF2)], [an(B, B1, True)],
         [{"op": "available", "db": 0, "path": A}, {"op": "cycles", "db": 0}, {"op": "available", "db": 0, "path": B}]],
        [{"op": "available", "db": 0, "path": A, "observe": True}, {"op": "available", "db": 0, "path": B, "observe": True}]),
}


def run(ctx):
    quick = ctx.tier == "quick"
    per = 300 if quick else 30000
    ctx.rule = ("scenarios of 2-3 concurrent analyses of distinct files sharing names, each run under N seeded schedules "
                "(uniform + PCT depth 1-3) at shard-lock granularity; distinct = distinct decision vectors; a scenario "
                "counts only if the retain->remove_if window was actually entered by a foreign writer in some run")
    vh = VH(vh_bin(), locklog=os.path.join(ctx.scratch_root, "lock_vh.log"), env={"VERIF_SHARDS": "2"})
    total_distinct = 0
    windows = {}
    try:
        for name, spec_ in SCENARIOS.items():
            setup, threads = spec_[0], spec_[1]
            extra = {"after": spec_[2]} if len(spec_) > 2 else {}
            allowed = {}
            for perm in itertools.permutations(range(len(threads))):
                r = vh.call(op="sched_scenario", setup=setup, threads=threads, seed=0, count=1, sequential=list(perm), **extra)
                for o in r["outcomes"]:
                    allowed[o["index"]] = perm
                    if o["invariants"]:
                        ctx.violation({"kind": "invariant-in-sequential-run", "scenario": name}, {"inv": o["invariants"]})
            if len(allowed) != 1:
                ctx.count("scenarios_with_several_sequential_outcomes")
            win = 0
            for mode, pct in (("uniform", None), ("pct1", 1), ("pct2", 2), ("pct3", 3)):
                cnt = per if mode == "uniform" else per // 3
                try:
                    r = vh.call(op="sched_scenario", setup=setup, threads=threads, seed=ctx.seed * 1000003 + hash_str(name) % 1000,
                                count=cnt, pct=pct, est=120, timeout=1200, **extra)
                except VHDied as e:
                    if e.returncode == 97:
                        ctx.violation({"kind": "deadlock-under-scheduler", "scenario": name, "mode": mode},
                                      {"stderr": e.stderr[-1500:]})
                        vh = VH(vh_bin(), locklog=os.path.join(ctx.scratch_root, "lock_vh.log"), env={"VERIF_SHARDS": "2"})
                        continue
                    raise Inconclusive(f"harness died: {e} {e.stderr[-300:]}")
                if isinstance(r, dict) and r.get("sched_deadlock"):
                    # every thread of the scenario is blocked on a map lock held by another: no outcome at all
                    ctx.violation({"kind": "deadlock-under-scheduler", "where": "c09"}, {"detail": str(r.get("detail", ""))[:1500]})
                    break
                if "distinct_schedules" not in r:
                    raise Inconclusive(f"harness refused the scenario: {str(r)[:400]}")
                if r.get("panics"):
                    ctx.violation({"kind": "panic-during-concurrent-analysis", "scenario": name}, {"panics": r["panics"][:3]})
                ctx.judged(cnt)
                total_distinct += r["distinct_schedules"]
                win += r["runs_with_window"]
                for o in r["outcomes"]:
                    if o["index"] not in allowed or o["invariants"]:
                        ctx.violation({"kind": "non-sequential-outcome", "scenario": name, "mode": mode},
                                      {"first_seed": o["first_seed"], "count": o["count"], "invariants": o["invariants"],
                                       "outcome": o["index"], "sequential": list(allowed)[0]})
                ctx.nontrivial((name, mode, r["distinct_schedules"] > 1))
            windows[name] = win
            ctx.count("schedules_" + name, per + 3 * (per // 3))
        ctx.extra["distinct_schedules"] = total_distinct
        ctx.extra["runs_in_which_a_foreign_writer_entered_the_retain_remove_window"] = windows
        ctx.sample({"scenario": "remove_last_def_vs_add", "setup": SCENARIOS["remove_last_def_vs_add"][0],
                    "threads": SCENARIOS["remove_last_def_vs_add"][1]})
        if sum(windows.values()) == 0:
            raise Inconclusive("no schedule entered the critical window: the monitor would not see the hazard")
        native_stress(ctx, vh, 40 if quick else 2000)
        scan_vs_edit(ctx, 8 if quick else 300)
    finally:
        vh.close()
    if not quick:
        sanitizers(ctx)


def scan_vs_edit(ctx, rounds):
    """the real workspace scan (walk, parallel analysis, venv phase, import phase) on one native thread and an editor's
    analysis of ONE other file (a module in the middle of a conftest's import chain, text unchanged) on another: the files
    nobody edited must end up indexed exactly as by a scan alone"""
    import shutil
    from ..common import write_tree
    from ..twins import raw_multiset
    root = ctx.scratch("scan_edit")
    helpers = "from .deep_fixtures import *\nimport pytest\n\n@pytest.fixture\ndef helper_fx():\n    return 1\n"
    files = {"pkg/__init__.py": "", "pkg/conftest.py": "from .helpers import *\n", "pkg/helpers.py": helpers,
             "pkg/deep_fixtures.py": "from .deeper import *\nimport pytest\n\n@pytest.fixture\ndef deep_fx():\n    return 2\n",
             "pkg/deeper.py": "import pytest\n\n@pytest.fixture\ndef deeper_fx(deep_fx):\n    return 3\n",
             "pkg/test_use.py": "def test_u(helper_fx, deep_fx, deeper_fx):\n    pass\n"}
    for i in range(150):
        files[f"bulk/test_b{i}.py"] = "import pytest\n\n@pytest.fixture\ndef local_%d():\n    return 1\n\ndef test_b(local_%d):\n    pass\n" % (i, i)
    write_tree(root, files)
    hp = os.path.join(root, "pkg/helpers.py")
    p = VH(vh_bin(), env={"VERIF_DELAY": f"{ctx.seed + 5}:100000"})
    try:
        ref = p.new_db()
        p.call(op="scan", db=ref, root=root, timeout=300)
        p.call(op="analyze", db=ref, path=hp, text=helpers)
        mref = raw_multiset(p.call(op="raw", db=ref))
        for k in ("imports", "file_cache", "plugin_files"):
            mref.pop(k, None)
        for rnd in range(rounds):
            db = p.new_db()
            edit = [{"op": "analyze", "db": db, "path": hp, "text": helpers}]
            edit = edit * (1 + rnd % 3)          # the same buffer re-sent a few times, at different moments of the scan
            r = p.call(op="stress", threads=[[{"op": "scan", "db": db, "root": root}], edit], timeout=300)
            if any(isinstance(x, dict) and x.get("thread_panic") for x in r["results"]):
                ctx.violation({"kind": "panic-in-scan-vs-edit"}, {"round": rnd})
            m = raw_multiset(p.call(op="raw", db=db))
            for k in ("imports", "file_cache", "plugin_files"):
                m.pop(k, None)
            inv = p.call(op="invariants", db=db)["violations"]
            ctx.judged()
            # the edited file itself is C10's business (KF-C10-scan-after-open): compare everything else
            def others(mm):
                return {k: [x for x in v if hp not in str(x)] if isinstance(v, list) else {a: b for a, b in v.items() if hp not in str(a) and hp not in str(b)}
                        for k, v in mm.items()}
            if others(m) != others(mref):
                from ..twins import diff, brief
                dd = diff(others(mref), others(m))
                ctx.violation({"kind": "scan-concurrent-with-edit-of-another-file", "first": str(dd[0][0])[:120] if dd else "?"},
                              {"round": rnd, "diffs": [(str(a)[:100], brief(b), brief(c)) for a, b, c in dd[:4]], "invariants": inv[:3]}, files=files)
            p.call(op="drop_db", db=db)
        ctx.nontrivial(("scan_vs_edit", rounds > 0))
        ctx.count("scan_vs_edit_rounds", rounds)
    finally:
        p.close()
        shutil.rmtree(root, ignore_errors=True)


def native_stress(ctx, vh, rounds):
    """native threads, delay injection, 2 shards: N rounds; final index must equal the sequential outcome"""
    p = VH(vh_bin(), env={"VERIF_SHARDS": "2", "VERIF_DELAY": f"{ctx.seed}:300000"})
    try:
        files = [f"{D}/test_n{i}.py" for i in range(8)]
        versions = [A1, B1, C1, A3, A2, B2]
        bad = 0
        for rnd in range(rounds):
            db = p.new_db()
            plans = []
            for f in files:
                seq = [ctx.rng.choice(versions) for _ in range(ctx.rng.randint(1, 4))]
                plans.append([{"op": "analyze" if k else "analyze_fresh", "db": db, "path": f, "text": t}
                              for k, t in enumerate(seq)])
            r = p.call(op="stress", threads=plans, timeout=300)
            if any(isinstance(x, dict) and x.get("thread_panic") for x in r["results"]):
                ctx.violation({"kind": "panic-in-native-stress"}, {"round": rnd})
            raw = p.call(op="raw", db=db)
            inv = p.call(op="invariants", db=db)["violations"]
            ref = p.new_db()
            p.call(op="batch", cmds=[dict(pl[-1], db=ref, op="analyze") for pl in plans])
            rr = p.call(op="raw", db=ref)
            from ..twins import raw_multiset
            ma, mb = raw_multiset(raw), raw_multiset(rr)
            for k in ("imports", "file_cache", "plugin_files"):
                ma.pop(k, None); mb.pop(k, None)
            ctx.judged()
            if ma != mb or inv:
                bad += 1
                ctx.violation({"kind": "native-stress-final-state", "round": rnd}, {"invariants": inv[:5]})
            p.call(op="drop_db", db=db); p.call(op="drop_db", db=ref)
        ctx.count("native_stress_rounds", rounds)
        ctx.nontrivial(("native_stress", rounds > 0))
    finally:
        p.close()


def sanitizers(ctx):
    """thorough tier: the same concurrent workload under ThreadSanitizer (build-std) and Miri"""
    try:
        tsan = build.build_vh_sanitizer("thread")
    except build.BuildError as e:
        ctx.notes.append(f"TSan build unavailable: {str(e)[:200]}")
        ctx.extra["tsan"] = "build failed (inconclusive for the sanitizer part only)"
        return
    files = [f"{D}/test_t{i}.py" for i in range(6)]
    versions = [A1, B1, C1, A3, A2]
    env = {"TSAN_OPTIONS": "halt_on_error=0 report_signal_unsafe=0", "VERIF_SHARDS": "2"}
    reports = 0
    for rnd in range(5):
        p = VH(tsan, env=env)
        try:
            db = p.new_db()
            plans = [[{"op": "analyze", "db": db, "path": f, "text": ctx.rng.choice(versions)} for _ in range(6)] +
                     [{"op": "queries", "db": db}] for f in files]
            p.call(op="stress", threads=plans, timeout=900)
        finally:
            rc, err = p.close()
        n = err.count("WARNING: ThreadSanitizer")
        reports += n
        if n:
            in_repo = "/repo/src" in err or "shims/dashmap" in err
            if in_repo:
                ctx.violation({"kind": "tsan-data-race"}, {"stderr": err[-3000:]})
            else:
                ctx.count("tsan_reports_outside_repo_inconclusive", n)
        ctx.judged()
    ctx.extra["tsan_reports"] = reports
    ctx.nontrivial(("tsan", "ran"))
    miri_pass(ctx)


def miri_pass(ctx, n_seeds=6):
    """the remove-last-definition / add scenario on native threads under Miri (UB and data-race detector of the
    interpreter; its scheduler is seeded, so every seed is another interleaving)"""
    import json as _j
    from concurrent.futures import ThreadPoolExecutor
    script = "\n".join(_j.dumps(c) for c in [
        {"op": "new_db"},
        dict(an(A, A1), db=0), dict(an(C, C1), db=0),
        {"op": "stress", "threads": [[dict(an(A, A2), db=0)], [dict(an(B, B1, True), db=0)], [{"op": "queries", "db": 0}]]},
        {"op": "invariants", "db": 0}, {"op": "raw", "db": 0}]) + "\n"
    # the first run compiles the dependencies for the Miri target; do it once before fanning out
    rc, out, err = build.miri_run(script, seed=0, timeout=3600)
    results = [(0, rc, out, err)]
    with ThreadPoolExecutor(max_workers=6) as ex:
        futs = [ex.submit(lambda k=k: (k,) + build.miri_run(script, seed=k, timeout=3600)) for k in range(1, n_seeds)]
        results += [f.result() for f in futs]
    ran = 0
    for k, rc, out, err in results:
        if rc is None:
            ctx.count("miri_timeouts")
            continue
        ctx.judged()
        if "Undefined Behavior" in err or "Data race detected" in err or "data race" in err.lower():
            ctx.violation({"kind": "miri-report", "seed": k}, {"stderr": err[-3000:]})
        elif rc != 0:
            ctx.count("miri_unsupported_or_failed")
            ctx.notes.append(err[-400:])
        else:
            ran += 1
            last = [l for l in out.strip().split("\n") if l.startswith("{")]
            inv = _j.loads(last[-2])["violations"] if len(last) >= 2 else None
            if inv:
                ctx.violation({"kind": "invariant-under-miri", "seed": k}, {"invariants": inv})
    ctx.extra["miri_runs_completed"] = ran
    if ran:
        ctx.nontrivial(("miri", "ran"))
