"""C12 — every operation terminates: no deadlock, no unbounded looping.

Monitors:
  * lock monitor inside the instrumented DashMap (all workloads of this check run with 2 shards per
    map so that key placement cannot hide a re-entrancy): a thread acquiring a shard of a map it
    already holds with either side exclusive is a violation whether or not the shards coincide;
    lock-order edges between maps are collected and searched for cycles whose edges conflict;
  * every request kind against the real server while the background scan is held at a failpoint
    and while it runs with injected delays: every request must be answered;
  * cyclic inputs (circular/self imports, dense and cyclic fixture dependency graphs, deep directory
    chains, symlink loops) under a per-operation watchdog that is >= 500x the observed median;
    on expiry the process state is sampled to classify blocked vs spinning.
"""
import os, shutil, time

from .. import gen
from ..common import Inconclusive, write_tree
from ..locklog import LockFacts
from ..lsp import LSP
from ..reqs import all_position_requests, all_document_requests
from ..runner import vh_bin, srv_bin, materialize
from ..vh import VH, VHDied

WATCHDOG = 60.0


def proc_state(pid):
    try:
        with open(f"/proc/{pid}/stat") as f:
            return f.read().split(")")[1].split()[0]
    except Exception:
        return "?"


def threads_state(pid):
    out = []
    try:
        for t in os.listdir(f"/proc/{pid}/task"):
            try:
                st = open(f"/proc/{pid}/task/{t}/stat").read().split(")")[1].split()[0]
                wch = open(f"/proc/{pid}/task/{t}/wchan").read().strip()
                out.append((t, st, wch))
            except Exception:
                pass
    except Exception:
        pass
    return out


def run(ctx):
    quick = ctx.tier == "quick"
    ctx.rule = ("lock-order edges / re-entrancies observed by the instrumented DashMap over: all request kinds during "
                "a gated + delayed scan, query sweeps over generated workspaces, cyclic inputs under watchdog; "
                "distinct = distinct (held map,mode -> acquired map,mode) edges + R/R maps + cyclic input classes")
    facts = LockFacts()
    logs = []
    n_srv = 4 if quick else 60
    n_sweep = 6 if quick else 120
    # ---- W1: requests while the scan is held / delayed -----------------------------------------------
    for i in range(n_srv):
        log = os.path.join(ctx.scratch_root, f"lock_srv_{i}.log")
        logs.append(log)
        during_scan(ctx, i, log)
    # ---- W3: query sweep in the library harness (2 shards) ---------------------------------------------
    log = os.path.join(ctx.scratch_root, "lock_vh_sweep.log")
    logs.append(log)
    vh = VH(vh_bin(), locklog=log, env={"VERIF_SHARDS": "2"})
    try:
        for i in range(n_sweep):
            root = ctx.scratch(f"sw{i}")
            ws = gen.gen_workspace(root, ctx.rng, venv=(i % 2 == 0))
            materialize(ws)
            db = vh.new_db()
            via = root
            if i % 2 == 1:
                # the workspace and its documents are named through a symbolic link: every path that reaches the database
                # exists, is absolute and is NOT canonical (the path-canonicalisation cache is exercised with 2 shards)
                via = root.rstrip("/") + "_lnk"
                os.symlink(root, via)
                ctx.nontrivial(("sweep_through_symlinked_root",))
            call(ctx, vh, "scan", dict(op="scan", db=db, root=via))
            call(ctx, vh, "snapshot", dict(op="snapshot", db=db))
            for rel in ws.workspace_py()[:6]:
                call(ctx, vh, "analyze", dict(op="analyze", db=db, path=os.path.join(via, rel), text=ws.files[rel]))
                call(ctx, vh, "queries", dict(op="queries", db=db))
                call(ctx, vh, "available", dict(op="available", db=db, path=os.path.join(via, rel)))
                call(ctx, vh, "close", dict(op="close", db=db, path=os.path.join(via, rel)))
            if via != root:
                os.unlink(via)
            vh.call(op="drop_db", db=db)
            shutil.rmtree(root, ignore_errors=True)
        # ---- more than MAX_FILE_CACHE_SIZE analysed files: the eviction path runs under the lock monitor -----------
        db = vh.new_db()
        bulk = [{"op": "analyze_fresh", "db": db, "path": f"/vf_c12/bulk/test_b{i}.py", "text": "def test_b():\n    pass\n"} for i in range(2100)]
        call(ctx, vh, "bulk_analyze_2100", dict(op="batch", cmds=bulk), timeout=300)
        call(ctx, vh, "queries_after_eviction", dict(op="available", db=db, path="/vf_c12/bulk/test_b1.py"))
        vh.call(op="drop_db", db=db)
        ctx.nontrivial(("eviction_path",))
        # ---- W2: cyclic inputs --------------------------------------------------------------------------
        vh = cyclic_inputs(ctx, vh, quick, log)
        vh = incomplete_buffers(ctx, vh, log)
        vh.call(op="lockstats")
    except VHDied as e:
        if e.returncode == 97:
            ctx.violation({"kind": "self-deadlock-detected-by-lock-monitor"}, {"stderr": e.stderr[-2000:]})
        else:
            raise Inconclusive(f"harness died: {e}: {e.stderr[-300:]}")
    finally:
        try:
            vh.close()
        except Exception:
            pass
    # ---- offline: lock facts -----------------------------------------------------------------------------
    for l in logs:
        facts.load(l)
    for c in facts.conflicts:
        ctx.violation({"kind": "conflicting-reentrancy", "map": c["map"].split(":", 1)[-1][:80], "held": c["held_mode"],
                       "req": c["req_mode"]},
                      {"same_shard": c["same_shard"], "backtrace": c.get("bt", "")[:1500]})
    for d in facts.sched_deadlocks:
        ctx.violation({"kind": "scheduler-deadlock"}, d)
    for cyc in facts.conflicting_cycles():
        ctx.violation({"kind": "conflicting-lock-order-cycle", "cycle": cyc},
                      {"edges": [k for k in facts.edges if k[0] in [n for n, _ in cyc]]})
    ctx.extra["lock_edges"] = sorted([f"{a}:{ma}>{b}:{mb}" for (a, ma, b, mb) in facts.edges])
    ctx.extra["rr_reentrancies"] = sorted(facts.rr)
    ctx.extra["acquisitions"] = sum(s.get("acquisitions", 0) for s in facts.stats)
    ctx.extra["nested_acquisitions"] = sum(s.get("nested", 0) for s in facts.stats)
    for e in facts.edges:
        ctx.nontrivial(("edge",) + e)
    for r in facts.rr:
        ctx.nontrivial(("rr", r))
    # the read-only nestings the code is known to perform must have been *seen*, otherwise the handlers
    # were not reached and silence means nothing
    need = {"definitions", "usage_by_fixture", "usages"}
    if not need <= facts.rr | {e[0] for e in facts.edges}:
        raise Inconclusive(f"expected nestings not observed: {need - facts.rr}")
    ctx.sample({"edges": ctx.extra["lock_edges"][:12], "rr": ctx.extra["rr_reentrancies"]})


def call(ctx, vh, what, cmd, timeout=WATCHDOG):
    t0 = time.time()
    try:
        r = vh.call(timeout=timeout, **cmd)
    except TimeoutError:
        st = threads_state(vh.p.pid)
        spinning = any(s == "R" for _, s, _ in st)
        ctx.violation({"kind": "operation-exceeded-watchdog", "op": what, "class": "spinning" if spinning else "blocked"},
                      {"threads": st[:20], "watchdog_s": timeout, "cmd": {k: (v if k != "text" else v[:200]) for k, v in cmd.items()}})
        vh.kill()
        raise VHDied("killed after watchdog", None, "")
    dt = time.time() - t0
    ctx.judged()
    ctx.extra["max_op_seconds"] = max(ctx.extra.get("max_op_seconds", 0.0), round(dt, 3))
    if isinstance(r, dict) and "panic" in r:
        ctx.count("panics_seen_(C11_territory)")
    return r


def during_scan(ctx, i, log):
    root = ctx.scratch(f"srv{i}")
    ws = gen.gen_workspace(root, ctx.rng, depth=ctx.rng.randint(2, 3), venv=(i % 2 == 0))
    if i % 2 == 0:
        # a conftest importing something that is not in the tree (resolution falls through to site-packages / editable
        # roots), and a venv big enough for the plugin-scan phase to overlap with requests
        for rel in list(ws.files):
            if rel.endswith("conftest.py") and not rel.startswith(".venv"):
                ws.files[rel] = "from not_installed_pkg.fixtures import *\n" + ws.files[rel]
        sp = f".venv/lib/{gen.PYVER}/site-packages"
        ws.files[f"{sp}/bigplug/__init__.py"] = ""
        for k_ in range(150):
            ws.files[f"{sp}/bigplug/m{k_}.py"] = "import pytest\n\n" + "".join(
                f"@pytest.fixture\ndef bp_{k_}_{j}():\n    return 1\n\n" for j in range(3)) + ("@pytest.fixture\ndef fx_a():\n    return 1\n" if k_ % 10 == 0 else "")
        ws.files[f"{sp}/bigplug-1.0.dist-info/entry_points.txt"] = "[pytest11]\nbig = bigplug\n"
    materialize(ws)
    model = ws.model()
    gate = ctx.scratch(f"gate{i}")
    probes = [r for r in ws.workspace_py() if r.endswith("test_probe.py")]
    gated = ctx.rng.choice(probes)
    env = {"VERIF_SHARDS": "2", "VERIF_DELAY": f"{ctx.seed + i}:150000", "VERIF_SCAN_GATE": gate,
           "VERIF_SCAN_GATE_MATCH": "/" + gated if "/" in gated else gated}
    srv_root = root
    if i % 2 == 1:
        srv_root = root.rstrip("/") + "_lnk"       # the client names the workspace through a symbolic link
        os.symlink(root, srv_root)
    srv = LSP(srv_bin(), srv_root, env=env, locklog=log)
    try:
        rec = srv.initialize(wait_scan=False)
        if not rec["answered"]:
            ctx.violation({"kind": "initialize-unanswered"}, {"stderr": srv.stderr_text()[-800:]})
            return
        t0 = time.time()
        while not os.path.exists(os.path.join(gate, "visit.0")) and time.time() - t0 < 15:
            srv.pump(0.05)
        held = os.path.exists(os.path.join(gate, "visit.0"))
        ctx.count("scan_held_at_failpoint" if held else "failpoint_not_reached")
        phases = ["during_scan", "after_scan"]
        for ph in phases:
            files = [r for r in ws.workspace_py() if model.models.get(ws.abs(r)) and model.models[ws.abs(r)].ok
                     and model.models[ws.abs(r)].usages]
            ctx.rng.shuffle(files)
            for rel in files[:3]:
                f = ws.abs(rel)
                before = srv.seq
                if ph == "during_scan":
                    srv.did_open(f, ws.files[rel])
                else:
                    srv.did_change(f, ws.files[rel] + "\n")
                diags = srv.wait_diagnostics(f, before, timeout=WATCHDOG)
                recs = []
                for u in model.models[f].usages[:3]:
                    recs += all_position_requests(srv, f, u["line"] - 1, u["start_b"], timeout=WATCHDOG)
                for d in model.models[f].defs[:2]:
                    if d["name_span"]:
                        recs += all_position_requests(srv, f, d["line"] - 1, d["name_span"]["start_b"], timeout=WATCHDOG)
                recs += all_document_requests(srv, f, timeout=WATCHDOG, diagnostics=diags or [])
                for r in recs:
                    ctx.judged()
                    if not r["answered"]:
                        pid = srv.p.pid
                        ctx.violation({"kind": "request-unanswered", "method": r["method"], "phase": ph},
                                      {"threads": threads_state(pid)[:20], "stderr": srv.stderr_text()[-800:],
                                       "exit": srv.p.poll()}, files=ws.files)
                        return
                if diags is None:
                    ctx.violation({"kind": "notification-not-processed", "phase": ph}, {"stderr": srv.stderr_text()[-500:]})
                    return
                if ph == "during_scan":
                    srv.did_close(f)
            if ph == "during_scan":
                open(os.path.join(gate, "go.0"), "w").close()
                # keep asking while the rest of the scan (venv / plugin / import phases) runs
                probe_files = [r for r in ws.workspace_py() if r.endswith("test_probe.py")]
                t_end = time.time() + WATCHDOG
                k_ = 0
                while not any("Workspace scan complete" in l for l in srv.logs) and time.time() < t_end:
                    pf = ws.abs(probe_files[k_ % len(probe_files)])
                    um = model.models[pf].usages
                    if um:
                        u_ = um[k_ % len(um)]
                        r_ = srv.definition(pf, u_["line"] - 1, u_["start_b"], timeout=WATCHDOG)
                        ctx.judged()
                        if not r_["answered"]:
                            ctx.violation({"kind": "request-unanswered", "method": "textDocument/definition", "phase": "scan_tail"},
                                          {"threads": threads_state(srv.p.pid)[:20], "stderr": srv.stderr_text()[-800:]}, files=None)
                            return
                    k_ += 1
                ctx.count("requests_during_scan_tail", k_)
                if not srv.wait_log("Workspace scan complete", timeout=WATCHDOG):
                    ctx.violation({"kind": "scan-did-not-complete"},
                                  {"threads": threads_state(srv.p.pid)[:20], "stderr": srv.stderr_text()[-800:]}, files=ws.files)
                    return
        # ---- bursts: several notifications for one document (with an undeclared-fixture finding) and requests for it leave
        # the editor in one write; every request must come back
        bf = os.path.join(root, "test_burst_doc.py")
        any_name = (ws.spec.get("names") or ["fx_a"])[0]
        btxt = f"def test_burst():\n    v = {any_name}\n    return {any_name}\n"
        before = srv.seq
        srv.did_open(bf, btxt)
        srv.wait_diagnostics(bf, before, timeout=WATCHDOG)
        for rep in range(3):
            with srv.batch():
                for k_ in range(6):
                    srv.did_change(bf, btxt + f"# {rep}.{k_}\n" + ("" if k_ % 2 else f"def test_more_{k_}():\n    return {any_name}\n"))
            for r in (srv.hover(bf, 1, 9, timeout=WATCHDOG), srv.document_symbol(bf, timeout=WATCHDOG)):
                ctx.judged()
                if not r["answered"]:
                    ctx.violation({"kind": "request-unanswered", "method": r["method"], "phase": "after_notification_burst"},
                                  {"threads": threads_state(srv.p.pid)[:20], "stderr": srv.stderr_text()[-800:], "exit": srv.p.poll()})
                    return
        ctx.nontrivial(("notification_burst", i % 2))
        ctx.count("server_sessions")
    finally:
        answered, rc, err = srv.shutdown()
        if rc == 97:
            ctx.violation({"kind": "self-deadlock-detected-by-lock-monitor", "where": "server"}, {"stderr": err[-2000:]})
        shutil.rmtree(root, ignore_errors=True)


HDR = "import pytest\n\n"


def fx(name, deps=(), scope=None):
    d = f'@pytest.fixture(scope="{scope}")' if scope else "@pytest.fixture"
    return f"{d}\ndef {name}({', '.join(deps)}):\n    return 1\n\n"


def incomplete_buffers(ctx, vh, log):
    """buffers in the middle of being typed (they do not parse): the completion context at every line end is computed by
    text scans up and down the buffer - each must return"""
    from .. import hostile
    docs = [(l, t) for l, t in hostile.docs(ctx.rng, thorough=False) if l.startswith("typing_")]
    n = 0
    try:
        db = vh.new_db()
        for label, text in docs:
            path = f"/vf_c12/typing/test_{n}.py"
            n += 1
            call(ctx, vh, f"analyze:{label}", dict(op="analyze", db=db, path=path, text=text), timeout=20)
            lines = text.split("\n")
            for li in sorted({len(lines) - 1, max(0, len(lines) - 2), 0}):
                for col in sorted({len(lines[li]), 0}):
                    call(ctx, vh, f"completion_ctx:{label}", dict(op="completion_ctx", db=db, path=path, line=li, char=col), timeout=20)
        vh.call(op="drop_db", db=db)
        ctx.nontrivial(("incomplete_buffers", n > 0))
        ctx.count("incomplete_buffers", n)
    except VHDied as e:
        if e.returncode is not None and e.returncode != 97:
            ctx.violation({"kind": "process-died-on-incomplete-buffer", "status": e.returncode}, {"stderr": e.stderr[-1200:]})
        vh = VH(vh_bin(), locklog=log, env={"VERIF_SHARDS": "2"})
    return vh


def cyclic_inputs(ctx, vh, quick, log):
    cases = {}
    # --- import cycles ---------------------------------------------------------------------------------
    cases["self_star_import_conftest"] = {"conftest.py": "from .conftest import *\n" + HDR + fx("a"), "test_x.py": "def test_x(a):\n    pass\n"}
    cases["self_pytest_plugins"] = {"conftest.py": 'pytest_plugins = ["conftest"]\n' + HDR + fx("a"), "test_x.py": "def test_x(a):\n    pass\n"}
    cases["self_import_module"] = {"conftest.py": "from .m import *\n", "m.py": "from .m import *\nfrom m import *\n" + HDR + fx("a"),
                                   "test_x.py": "def test_x(a):\n    pass\n"}
    for n in (2, 3, 5):
        for kind in ("star", "plugins", "explicit"):
            files = {"test_x.py": "def test_x(" + ", ".join(f"c{i}" for i in range(n)) + "):\n    pass\n"}
            for i in range(n):
                nxt = (i + 1) % n
                imp = {"star": f"from .m{nxt} import *\n", "plugins": f'pytest_plugins = ["m{nxt}"]\n',
                       "explicit": f"from .m{nxt} import c{nxt}\n"}[kind]
                files[f"m{i}.py"] = imp + HDR + fx(f"c{i}")
            files["conftest.py"] = "from .m0 import *\n"
            cases[f"import_cycle_{n}_{kind}"] = files
    # --- the same cycles among the modules of a pytest11 plugin (site-packages and in-workspace editable) ------------
    sp = ".venv/lib/python3.12/site-packages"
    for where in ("site", "editable"):
        for kind in ("star", "plugins", "self"):
            base = f"{sp}/cycplug" if where == "site" else "cycplug"
            imp_ab = {"star": "from .beta import *\n", "plugins": 'pytest_plugins = ["cycplug.beta"]\n', "self": "from .alpha import *\nfrom .beta import *\n"}[kind]
            imp_ba = {"star": "from .alpha import *\n", "plugins": 'pytest_plugins = ["cycplug.alpha"]\n', "self": "from .beta import *\nfrom .alpha import *\n"}[kind]
            files = {f"{base}/__init__.py": "from .alpha import *\n", f"{base}/alpha.py": imp_ab + HDR + fx("pa"), f"{base}/beta.py": imp_ba + HDR + fx("pb"),
                     f"{sp}/cycplug-1.0.dist-info/entry_points.txt": "[pytest11]\ncyc = cycplug.alpha\ncyc2 = cycplug\n",
                     ".venv/pyvenv.cfg": "home = /usr/bin\n", "conftest.py": HDR + fx("a"), "test_x.py": "def test_x(pa, pb, a):\n    pass\n"}
            if where == "editable":
                files[f"{sp}/cycplug-1.0.dist-info/direct_url.json"] = '{"url": "file://@ROOT@", "dir_info": {"editable": true}}'
                files[f"{sp}/__editable__.cycplug-1.0.pth"] = "@ROOT@\n"
            cases[f"plugin_import_cycle_{where}_{kind}"] = files
    # --- dependency graphs --------------------------------------------------------------------------------
    n = 14
    names = [f"k{i}" for i in range(n)]
    cases["complete_dependency_graph_14"] = {"conftest.py": HDR + "".join(fx(a, [b for b in names if b != a]) for a in names),
                                             "test_x.py": "def test_x(k0):\n    pass\n"}
    cases["self_dependency"] = {"conftest.py": HDR + fx("s", ["s"]), "test_x.py": "def test_x(s):\n    pass\n"}
    ring = [f"r{i}" for i in range(300)]
    cases["ring_300"] = {"conftest.py": HDR + "".join(fx(ring[i], [ring[(i + 1) % 300]]) for i in range(300)),
                         "test_x.py": "def test_x(r0):\n    pass\n"}
    layers = 12
    lay = {}
    src = HDR
    for L in range(layers):
        for w in range(3):
            deps = [f"l{L + 1}_{v}" for v in range(3)] if L + 1 < layers else []
            src += fx(f"l{L}_{w}", deps)
    cases["diamond_layers_12x3"] = {"conftest.py": src, "test_x.py": "def test_x(l0_0):\n    pass\n"}
    lad = HDR
    for i in range(40):
        lad += fx(f"a{i}", [f"b{i}", f"c{i}"]) + fx(f"b{i}", [f"a{i + 1}"]) + fx(f"c{i}", [f"a{i + 1}"])
    cases["diamond_ladder_40"] = {"conftest.py": lad + fx("a40"), "test_x.py": "def test_x(a0):\n    pass\n"}
    chain = [f"h{i}" for i in range(500)]
    cases["chain_500"] = {"conftest.py": HDR + "".join(fx(chain[i], [chain[i + 1]] if i + 1 < 500 else []) for i in range(500)),
                          "test_x.py": "def test_x(h0):\n    pass\n"}
    # --- deep directory chain ------------------------------------------------------------------------------
    deep = "/".join(["d"] * (120 if quick else 400))
    cases["deep_directory_chain"] = {"conftest.py": HDR + fx("top"), deep + "/conftest.py": HDR + fx("top", ["top"]),
                                     deep + "/test_x.py": "def test_x(top):\n    pass\n"}
    for cname, files in cases.items():
        root = ctx.scratch("cyc")
        files = {k: v.replace("@ROOT@", root) for k, v in files.items()}
        write_tree(root, files)
        # a symlink loop in every case directory: the walk must not follow it forever
        try:
            os.symlink(root, os.path.join(root, "loop"))
        except OSError:
            pass
        try:
            db = vh.new_db()
            call(ctx, vh, f"scan:{cname}", dict(op="scan", db=db, root=root))
            for rel, text in files.items():
                if rel.endswith(".py"):
                    call(ctx, vh, f"analyze:{cname}", dict(op="analyze", db=db, path=os.path.join(root, rel), text=text))
            r = call(ctx, vh, f"snapshot:{cname}", dict(op="snapshot", db=db))
            call(ctx, vh, f"cycles:{cname}", dict(op="cycles", db=db))
            call(ctx, vh, f"imported:{cname}", dict(op="imported", db=db, path=os.path.join(root, "conftest.py")))
            vh.call(op="drop_db", db=db)
            ctx.nontrivial(("cyclic_input", cname))
            ctx.count("cyclic_inputs")
        except VHDied as e:
            if e.returncode == 97:
                ctx.violation({"kind": "self-deadlock-detected-by-lock-monitor", "input": cname}, {"stderr": e.stderr[-2000:]})
            elif e.returncode is not None:
                # the process died (stack overflow = unbounded recursion, abort): the operation did not terminate normally
                ctx.violation({"kind": "process-died-on-cyclic-input", "input": cname, "status": e.returncode}, {"stderr": e.stderr[-1500:]})
            # restart the harness for the remaining cases
            vh = VH(vh_bin(), locklog=log, env={"VERIF_SHARDS": "2"})
        finally:
            shutil.rmtree(root, ignore_errors=True)
    return vh
