"""C01 — resolution follows pytest's shadowing order.

Monitor: reference-model monitor.  The real resolver (library entry point in vh, and the real
server's textDocument/definition) is driven over generated workspaces; every answer at every
column of every usage token is compared with an independent model of pytest's lookup.
"""
import os

from .. import gen
from ..common import Inconclusive
from ..lsp import LSP, uri_to_path
from ..runner import vh_bin, srv_bin, materialize, def_index, expected_target, res_kind, predict_import_branch
from ..vh import VH

KF_IMPORT = "KF-C01-import-first-registered"


def judge_usage(ctx, ws, model, order, file, u, actual_at, level):
    """actual_at(col) -> (file, line) | None.  Judges all columns of the token and both neighbours."""
    res, ex = model.resolve_usage(file, u)
    exp = expected_target(res)
    m = model.models[file]
    name = u["name"]
    if u.get("has_default") or name in ("request", "self", "cls"):
        ctx.count("dont_care")
        return
    if ex is not None and len(m.defs_named(name)) >= 2:
        ctx.count("dont_care_selfparam_in_redefining_file")
        return
    if ex is not None and u["line"] != ex[1]:
        # multi-line signature of an overriding fixture: C02's territory (known finding there)
        ctx.count("left_to_C02_multiline_selfparam")
        return
    ndefs = len(order.get(name, []))
    cols = list(range(u["start_b"], u["end_b"]))
    for col in cols:
        act = actual_at(col)
        ctx.judged()
        good = (act is None and exp is None) or (act is not None and exp is not None and act in exp)
        if good:
            continue
        # known-finding attribution: conftest import branch returns the first-registered same-named definition
        if act is not None:
            predicted = predict_import_branch(model, order, file, name, ex)
            if predicted is not None:
                if level == "vh":
                    if predicted == act and ctx.known(KF_IMPORT):
                        continue
                else:
                    cands = [d for d in order.get(name, []) if d != ex]
                    if act in cands and len(cands) >= 2 and ctx.known(KF_IMPORT):
                        ctx.count("kf_loose_lsp")
                        continue
        ctx.violation({"file": os.path.relpath(file, ws.root), "usage": [u["name"], u["line"], u["start_b"]],
                       "expected": sorted(exp) if exp else None, "actual": act, "level": level},
                      {"expected_kind": res_kind(res), "column": col, "usage_kind": u["kind"], "spec": ws.spec},
                      files=ws.files)
        break
    # neighbours must not be attributed to this usage
    for col in (u["start_b"] - 1, u["end_b"]):
        if col < 0:
            continue
        line = m.lt.line_text(u["line"])
        ch = line[col:col + 1]
        if ch.isalnum() or ch == "_":
            continue
        act = actual_at(col)
        ctx.judged()
        if act is not None:
            ctx.violation({"file": os.path.relpath(file, ws.root), "neighbour_of": [u["name"], u["line"], u["start_b"]],
                           "col": col, "actual": act, "level": level},
                          {"why": "a position outside the usage token resolved to a definition"}, files=ws.files)
    ctx.nontrivial((ws.spec["depth"], res_kind(res), u["kind"], min(ndefs, 3)))


def run(ctx):
    quick = ctx.tier == "quick"
    n_ws = 60 if quick else 1200
    n_lsp = 6 if quick else 60
    ctx.rule = ("generated workspaces (conftest chain depth 1-4, per level and name a provider role, invisible "
                "sibling/other-module/venv definitions); every usage token x every column judged against the "
                "reference model; distinct = (depth, expected provider kind, usage kind, #same-named definitions)")
    vhb = vh_bin()
    vh = VH(vhb, locklog=os.path.join(ctx.scratch_root, "lock_vh.log"))
    try:
        pinned(ctx, vh)
        if os.environ.get("VERIF_ONLY_PINNED"):
            return
        directed_memo_layouts(ctx, vh)
        for i in range(n_ws):
            root = ctx.scratch(f"ws{i}")
            ws = directed_editable_above(root, ctx.rng) if i == 1 else gen.gen_workspace(root, ctx.rng, allow_multiline=False, indirect_multi=True)
            materialize(ws)
            model = ws.model()
            db = vh.new_db()
            r = vh.call(op="scan", db=db, root=root, timeout=120)
            if "panic" in r or "error" in r:
                raise Inconclusive(f"scan failed: {r}")
            if i % 4 == 1:
                # the editor opens every conftest after the scan (same text): nothing about visibility changes
                for rel in ws.workspace_py():
                    if rel.endswith("conftest.py"):
                        vh.call(op="analyze", db=db, path=ws.abs(rel), text=ws.files[rel])
            raw = vh.call(op="raw", db=db)
            order = def_index(raw)
            for phase in ("scanned", "conftests_closed"):
                if phase == "conftests_closed":
                    if i % 3 != 0:
                        break
                    # the editor closed every conftest.py tab: their texts leave the text cache, the workspace is unchanged
                    for rel in ws.workspace_py():
                        if rel.endswith("conftest.py"):
                            vh.call(op="close", db=db, path=ws.abs(rel))
                    ctx.nontrivial(("phase", phase))
                for rel in ws.workspace_py():
                    f = ws.abs(rel)
                    m = model.models.get(f)
                    if m is None or not m.ok:
                        continue
                    for u in m.usages:
                        def actual_at(col, f=f, u=u):
                            a = vh.call(op="goto", db=db, path=f, line=u["line"] - 1, char=col)
                            if "panic" in a:
                                raise Inconclusive(f"goto panicked: {a}")
                            t = a.get("target")
                            return (t["file"], t["line"]) if t else None
                        judge_usage(ctx, ws, model, order, f, u, actual_at, "vh")
            vh.call(op="drop_db", db=db)
            ctx.sample({"spec": ws.spec, "files": sorted(ws.files)[:12]})
            if i < n_lsp:
                run_lsp(ctx, ws, model, order)
            ctx.count("workspaces")
            import shutil
            shutil.rmtree(root, ignore_errors=True)
    finally:
        vh.close()


def directed_editable_above(root, rng):
    """the project is installed editable from the directory above the workspace (pip install -e of the repository root, editor
    opened on a sub-directory): sibling directories keep their fixtures to themselves"""
    import json
    ws = gen.WS(root)
    sp = f".venv/lib/{gen.PYVER}/site-packages"
    parent = os.path.dirname(root)
    f1, _ = gen.fixture_src(ws, "only_a", rng)
    f2, _ = gen.fixture_src(ws, "only_b", rng)
    f3, _ = gen.fixture_src(ws, "helper_b", rng)
    f4, _ = gen.fixture_src(ws, "root_fx", rng)
    ws.files = {
        "conftest.py": gen.HEADER + f4, "a/conftest.py": gen.HEADER + f1, "b/__init__.py": "",
        "b/conftest.py": "from .helpers import *\n" + gen.HEADER + f2, "b/helpers.py": gen.HEADER + f3,
        "a/test_probe.py": "def test_a(only_a, only_b, helper_b, root_fx):\n    pass\n",
        "b/test_probe.py": "def test_b(only_a, only_b, helper_b, root_fx):\n    pass\n",
        "test_probe.py": "def test_r(only_a, only_b, helper_b, root_fx):\n    pass\n",
        ".venv/pyvenv.cfg": "home = /usr/bin\n", f"{sp}/_pytest/__init__.py": "",
        f"{sp}/selfproj-0.1.dist-info/direct_url.json": json.dumps({"url": "file://" + parent, "dir_info": {"editable": True}}),
        f"{sp}/selfproj-0.1.dist-info/METADATA": "Name: selfproj\n", f"{sp}/__editable__.selfproj-0.1.pth": parent + "\n"}
    ws.site_rel.append(sp)
    ws.third_party_rel.add(f"{sp}/_pytest/__init__.py")
    ws.spec = {"directed": "editable install root above the workspace", "depth": 1, "names": ["only_a", "only_b", "helper_b", "root_fx"], "levels": []}
    ws.features.add(("editable_root_above_workspace",))
    return ws


def run_lsp(ctx, ws, model, order):
    srv = LSP(srv_bin(), ws.root, locklog=os.path.join(ctx.scratch_root, "lock_srv.log"))
    try:
        rec = srv.initialize()
        if not rec["answered"] or not any("scan complete" in l for l in srv.logs):
            raise Inconclusive("server did not finish its scan: " + srv.stderr_text()[-400:])
        opened = set()
        for rel in ws.workspace_py():
            f = ws.abs(rel)
            m = model.models.get(f)
            if m is None or not m.ok or not m.usages:
                continue
            if ctx.rng.random() < 0.5:
                srv.did_open(f, ws.files[rel])
                opened.add(f)
            for u in m.usages:
                def actual_at(col, f=f, u=u):
                    r = srv.definition(f, u["line"] - 1, col)
                    if not r["answered"]:
                        raise Inconclusive("definition request unanswered: " + srv.stderr_text()[-400:])
                    res = r.get("result")
                    if not res:
                        return None
                    if isinstance(res, list):
                        res = res[0]
                    return (uri_to_path(res["uri"]), res["range"]["start"]["line"] + 1)
                # at LSP level probe first and a middle column only (the column sweep is done in vh)
                u2 = dict(u)
                mid = (u["start_b"] + u["end_b"]) // 2
                u2["start_b"], u2["end_b"] = mid, mid + 1
                judge_usage_lsp(ctx, ws, model, order, f, u, actual_at)
        # a file that changed on disk after the scan (checkout, formatter) is opened: the text the editor sends counts
        for rel in ws.workspace_py():
            f = ws.abs(rel)
            m = model.models.get(f)
            if f in opened or m is None or not m.ok or not os.path.basename(rel).startswith("test_"):
                continue
            cand = [u for u in m.usages if u["kind"] == "test_param" and not m.defs_named(u["name"])
                    and u["name"] not in ("request", "self", "cls") and not u.get("has_default")]
            if not cand:
                continue
            u = cand[0]
            text = ws.files[rel]
            new = text + ("" if text.endswith("\n") else "\n") + f"\n\nimport pytest\n\n\n@pytest.fixture\ndef {u['name']}():\n    return 0\n"
            def_line = new.rstrip("\n").count("\n")          # 1-based line of the appended "def"
            open(f, "w").write(new)
            before = srv.seq
            srv.did_open(f, new)
            srv.wait_diagnostics(f, before, timeout=20)
            r = srv.definition(f, u["line"] - 1, u["start_b"])
            res = r.get("result")
            if isinstance(res, list):
                res = res[0] if res else None
            act = (uri_to_path(res["uri"]), res["range"]["start"]["line"] + 1) if res else None
            ctx.judged()
            if act != (f, def_line):
                ctx.violation({"kind": "same-file-definition-of-opened-text-not-used", "level": "lsp", "file": rel, "name": u["name"]},
                              {"expected": [rel, def_line], "actual": act, "spec": ws.spec}, files=ws.files | {rel + ".opened": new})
            ctx.nontrivial(("lsp", "opened_text_differs_from_scanned"))
            break
        ctx.count("lsp_workspaces")
    finally:
        srv.shutdown()


def judge_usage_lsp(ctx, ws, model, order, f, u, actual_at):
    cols = sorted({u["start_b"], (u["start_b"] + u["end_b"]) // 2, u["end_b"] - 1})
    uu = dict(u)
    # judge only the chosen columns: emulate by narrowing the span per column
    for c in cols:
        uu["start_b"], uu["end_b"] = c, c + 1
        # neighbours are not re-checked here
        judge_cols_only(ctx, ws, model, order, f, u, uu, actual_at)


def judge_cols_only(ctx, ws, model, order, f, u, uu, actual_at):
    res, ex = model.resolve_usage(f, u)
    exp = expected_target(res)
    m = model.models[f]
    name = u["name"]
    if u.get("has_default") or name in ("request", "self", "cls"):
        return
    if ex is not None and (len(m.defs_named(name)) >= 2 or u["line"] != ex[1]):
        return
    col = uu["start_b"]
    act = actual_at(col)
    ctx.judged()
    good = (act is None and exp is None) or (act is not None and exp is not None and act in exp)
    if good:
        return
    if act is not None and predict_import_branch(model, order, f, name, ex) is not None:
        cands = [d for d in order.get(name, []) if d != ex]
        if act in cands and len(cands) >= 2 and ctx.known(KF_IMPORT):
            ctx.count("kf_loose_lsp")
            return
    ctx.violation({"file": os.path.relpath(f, ws.root), "usage": [u["name"], u["line"], u["start_b"]],
                   "expected": sorted(exp) if exp else None, "actual": act, "level": "lsp"},
                  {"expected_kind": res_kind(res), "column": col, "usage_kind": u["kind"], "spec": ws.spec},
                  files=ws.files)


def directed_memo_layouts(ctx, vh):
    """import layouts in which a nested import walk is cut short (cycles, diamonds, plugin rings) with one entry conftest
    per directory: the usages below every entry point are judged in every order of the entry points on one database - what
    the walk for one directory memoised must not change the resolution below another"""
    import itertools, shutil
    from ..memo_layouts import layouts
    from ..runner import write_tree
    for lay in layouts():
        for perm in itertools.permutations(lay["probes"]):
            root = ctx.scratch("memo_" + lay["name"])
            ws = gen.WS(root)
            ws.files = dict(lay["files"])
            ws.spec = {"depth": 1, "directed": lay["name"], "probe_order": list(perm)}
            write_tree(root, ws.files)
            model = ws.model()
            db = vh.new_db()
            vh.call(op="batch", cmds=[{"op": "analyze_fresh", "db": db, "path": ws.abs(r), "text": ws.files[r]} for r in sorted(ws.py_files())])
            order = def_index(vh.call(op="raw", db=db))
            for rel in perm:
                f = ws.abs(rel)
                for u in model.models[f].usages:
                    def actual_at(col, f=f, u=u):
                        a = vh.call(op="goto", db=db, path=f, line=u["line"] - 1, char=col)
                        t = a.get("target")
                        return (t["file"], t["line"]) if t else None
                    judge_usage(ctx, ws, model, order, f, u, actual_at, "vh")
            vh.call(op="drop_db", db=db)
            shutil.rmtree(root, ignore_errors=True)
        ctx.count("directed_memo_layouts")


def pinned(ctx, vh):
    from ..witness import WITNESS, ws_from_witness
    w = WITNESS[KF_IMPORT]
    ws = ws_from_witness(ctx, w)
    model = ws.model()
    db = vh.new_db()
    vh.call(op="batch", cmds=[{"op": "analyze_fresh", "db": db, "path": ws.abs(r), "text": ws.files[r]} for r in w["order"]])
    order = def_index(vh.call(op="raw", db=db))
    for rel in ws.workspace_py():
        f = ws.abs(rel)
        m = model.models[f]
        for u in m.usages:
            def actual_at(col, f=f, u=u):
                a = vh.call(op="goto", db=db, path=f, line=u["line"] - 1, char=col)
                t = a.get("target")
                return (t["file"], t["line"]) if t else None
            judge_usage(ctx, ws, model, order, f, u, actual_at, "vh")
    vh.call(op="drop_db", db=db)
    import shutil
    shutil.rmtree(ws.root, ignore_errors=True)
