"""C03 — what the index records for a file is what the file says.

Monitor: reference-model monitor.  Generated sources (documented fixture/usage forms) are analysed
by the real analyzer (library entry point); the recorded definitions and usages are compared record
by record, all fields at once, with an extraction done by CPython's ast/tokenize under the same
documented rules.  A sample is read back through the real server (documentSymbol, hover, inlay).
"""
import glob, os, re

from .. import srcgen
from ..common import Inconclusive
from ..pymodel import FileModel, norm_type, clean_doc_lines
from ..runner import vh_bin
from ..vh import VH

SKIP_NAMES = {"request", "cls", "self"}


def compare(ctx, label, path, text, raw, features, sample_files=None):
    m = FileModel(text, path)
    if not m.ok:
        ctx.count("skipped_cpython_rejects")
        return
    defs = [d for v in raw["definitions"].values() for d in v if d["file"] == path]
    usages = raw["usages"].get(path, [])
    problems = []
    # ---- definitions ------------------------------------------------------------------------------------
    got = {(d["name"], d["line"]): d for d in defs}
    if len(got) != len(defs):
        problems.append(("duplicate-definition-records", sorted((d["name"], d["line"]) for d in defs)))
    exp = {(d["name"], d["line"]): d for d in m.defs}
    for key in sorted(set(exp) | set(got)):
        if key not in got:
            problems.append(("definition-missing", key))
            continue
        if key not in exp:
            problems.append(("definition-invented", key))
            continue
        e, g = exp[key], got[key]
        if e["style"] == "assign":
            continue
        if e.get("scope_judged", True) and e["scope"] != g["scope"]:
            problems.append(("scope", key, e["scope"], g["scope"]))
        if e["autouse"] != g["autouse"]:
            problems.append(("autouse", key, e["autouse"], g["autouse"]))
        if e["deps"] != g["deps"]:
            problems.append(("dependencies", key, e["deps"], g["deps"]))
        if e.get("gen_judged", True):
            if e["yield_line"] != g["yield_line"]:
                problems.append(("yield_line", key, e["yield_line"], g["yield_line"]))
            if e.get("rt_judged", True) and norm_type(e["return_type"]) != norm_type(g["return_type"]):
                problems.append(("return_type", key, e["return_type"], g["return_type"]))
        if e.get("doc_raw") is not None and "\t" in e["doc_raw"]:
            ctx.count("dont_care_docstring_with_tabs")
        elif clean_doc_lines(e["docstring"]) != clean_doc_lines(g["docstring"]):
            problems.append(("docstring", key, e["docstring"], g["docstring"]))
    # ---- usages --------------------------------------------------------------------------------------------
    def ukey(name, line, s, e_, exact):
        return (name, line, s, e_) if exact else (name, line, None, None)
    dont = set()
    exp_u = []
    for u in m.usages:
        if u["name"] in SKIP_NAMES or u.get("has_default"):
            dont.add((u["name"], u["line"], u["start_b"]))
            continue
        exact = u.get("exact_span", True) and u.get("plain_string", True)
        exp_u.append(ukey(u["name"], u["line"], u["start_b"], u["end_b"], exact))
    inexact_lines = {(k[0], k[1]) for k in exp_u if k[2] is None}
    # the same name twice on one line, once in a form whose span is not judged: neither span is judged there
    exp_u = [(k[0], k[1], None, None) if (k[0], k[1]) in inexact_lines else k for k in exp_u]
    got_u = []
    for u in usages:
        if u["name"] in SKIP_NAMES or (u["name"], u["line"], u["start_char"]) in dont:
            continue
        if (u["name"], u["line"]) in inexact_lines:
            got_u.append((u["name"], u["line"], None, None))
        else:
            got_u.append((u["name"], u["line"], u["start_char"], u["end_char"]))
    if sorted(exp_u, key=str) != sorted(got_u, key=str):
        se, sg = sorted(exp_u, key=str), sorted(got_u, key=str)
        problems.append(("usages", [x for x in se if x not in sg][:4], [x for x in sg if x not in se][:4],
                         "multiplicity" if set(se) == set(sg) else "set"))
    ctx.judged(len(m.defs) + len(m.usages) + 1)
    for f in features:
        if m.defs or m.usages:
            ctx.nontrivial(f)
    if problems:
        ctx.violation({"kind": problems[0][0], "detail": str(problems[0][1:])[:200], "label": label},
                      {"problems": [str(p)[:300] for p in problems[:6]], "features": sorted(features)[:30]},
                      files={"source.py": text})


def run(ctx):
    quick = ctx.tier == "quick"
    n = 600 if quick else 30000
    ctx.rule = ("generated sources over decorator spellings/arguments, sync/async, yield placement in nested blocks, "
                "annotation forms, docstring layouts, classes, parameter kinds, marks at function/class/module level, "
                "multi-line signatures, tabs/CRLF/non-ASCII noise + repository test_project + README snippets; every "
                "definition and usage record compared; distinct = generator feature tokens exercised with >= 1 record")
    vh = VH(vh_bin(), locklog=os.path.join(ctx.scratch_root, "lock_vh.log"))
    try:
        db = vh.new_db()
        # fixed anchors: the repository's own example project and README snippets
        anchors = sorted(glob.glob("/repo/tests/test_project/**/*.py", recursive=True))
        for p in anchors:
            try:
                text = open(p, encoding="utf-8").read()
            except Exception:
                continue
            one(ctx, vh, db, "anchor:" + os.path.relpath(p, "/repo"), "/vf_c03/anchor/" + os.path.basename(p), text, {"anchor"})
        try:
            readme = open("/repo/README.md", encoding="utf-8").read()
            for i, block in enumerate(re.findall(r"```python\n(.*?)```", readme, re.S)):
                one(ctx, vh, db, f"readme:{i}", f"/vf_c03/readme/test_snip{i}.py", block, {"readme"})
        except FileNotFoundError:
            pass
        for i in range(n):
            s = srcgen.gen_source(ctx.rng, unicode_noise=0.3 if i % 3 == 0 else 0.0, plain_strings=(i % 4 != 0), redefine=0.2)
            text = s.text()
            name = "conftest.py" if i % 5 == 0 else f"test_g{i % 7}.py"
            one(ctx, vh, db, f"gen:{i}", f"/vf_c03/g/{name}", text, s.features)
            ctx.sample({"source": text[:1500], "features": sorted(s.features)})
            if i % 200 == 199:
                vh.call(op="drop_db", db=db)
                db = vh.new_db()
    finally:
        vh.close()


def one(ctx, vh, db, label, path, text, features):
    ok = vh.call(op="parses", text=text)["ok"]
    try:
        compile(text, "<src>", "exec", dont_inherit=True)
        cpy = True
    except Exception:
        cpy = False
    if not ok or not cpy:
        ctx.count("skipped_outside_grammar")
        return
    r = vh.call(op="analyze", db=db, path=path, text=text)
    if "panic" in r:
        ctx.violation({"kind": "panic-during-analysis", "label": label}, {"panic": r}, files={"source.py": text})
        return
    raw = vh.call(op="raw", db=db)
    compare(ctx, label, path, text, raw, features)
    if sum(map(ord, label)) % 4 == 0:
        # the same text sent again (didOpen + didChange): the records are those of the text, once
        vh.call(op="analyze", db=db, path=path, text=text)
        compare(ctx, label + ":resent", path, text, vh.call(op="raw", db=db), {"resent"})
    if sum(map(ord, label)) % 5 == 1 and "\r" not in text:
        # a large document, then the same document with one comment line moved down by one line (same length, same bytes,
        # its first and last kilobytes untouched): every recorded line below the move is one higher
        pad = "# padding line\n" * 300
        first, _, rest = text.partition("\n")
        marker = "# a comment that moves\n"
        v1 = pad + marker + first + "\n" + rest + "\n" + pad
        v2 = pad + first + "\n" + marker + rest + "\n" + pad
        if vh.call(op="parses", text=v1)["ok"] and vh.call(op="parses", text=v2)["ok"]:
            big = path.replace(".py", "_big.py") if not path.endswith("conftest.py") else path.replace("conftest.py", "bigdir/conftest.py")
            vh.call(op="analyze", db=db, path=big, text=v1)
            compare(ctx, label + ":big", big, v1, vh.call(op="raw", db=db), {"big_document"})
            vh.call(op="analyze", db=db, path=big, text=v2)
            compare(ctx, label + ":big_moved_line", big, v2, vh.call(op="raw", db=db), {"same_length_move_in_big_document"})
            vh.call(op="analyze", db=db, path=big, text="")
    # clear the file's records so that the next source under the same path starts clean
    vh.call(op="analyze", db=db, path=path, text="")
