"""C20 — CLI reports agree with the language server and are reproducible.

Monitor: cross-check + repeat runs of the real binary.  On generated workspaces: `fixtures unused`
(text and JSON) must list exactly the project, non-autouse fixtures to which no usage resolves (reference
sets from the library on the same tree, and from the model), exit status 1 iff non-empty, JSON valid and
equal to the text entries; `fixtures list` counts equal the reference-set sizes; --skip-unused and
--only-unused partition the unfiltered list; repeated runs with 1/4/16 workers are byte-identical.
"""
import json, os, re, shutil
from collections import Counter, defaultdict

from .. import gen
from ..cli import run_cli, parse_tree, ANSI
from ..common import write_tree, Inconclusive
from ..runner import vh_bin, srv_bin, materialize, expected_target
from ..vh import VH

KF_ORDER = "KF-C20-order-sensitive-names-vary-between-runs"


def sensitive(ws, raw):
    model = ws.model()
    imported = set()
    for p_, m_ in model.models.items():
        if m_.ok and m_.imports:
            imported |= set(model.imported_into(p_))
    out = set()
    for n, defs in raw["definitions"].items():
        if len(defs) >= 2 and (n in imported or sum(1 for d in defs if d["plugin"] and not d["third_party"]) >= 2
                               or sum(1 for d in defs if d["third_party"]) >= 2):
            out.add(n)
    return out, model


def parse_unused_text(out):
    res = []
    for l in ANSI.sub("", out).split("\n"):
        m = re.match(r"^\s+•\s+(\S+)\s+in\s+(.+)$", l)
        if m:
            res.append((m.group(2).strip(), m.group(1)))
    return res


def directed_unused_chain(root):
    """an override chain in which EVERY link is unused (the same name in three conftests, none requesting its parent, nothing
    else unused sorting between them) next to a used fixture: each link is an entry of its own in every report"""
    ws = gen.WS(root)
    one = lambda n: f"@pytest.fixture\ndef {n}():\n    return 1\n\n"
    ws.files = {"conftest.py": "import pytest\n\n" + one("db") + one("used_fx"),
                "sub/conftest.py": "import pytest\n\n" + one("db"),
                "sub/deep/conftest.py": "import pytest\n\n" + one("db") + one("used_fx"),
                "sub/deep/test_x.py": "def test_x(used_fx):\n    pass\n",
                "sub/test_y.py": "def test_y(used_fx):\n    pass\n"}
    ws.spec = {"directed": "override chain whose links are all unused", "depth": 3}
    ws.features.add("directed_unused_chain")
    return ws


def run(ctx):
    quick = ctx.tier == "quick"
    n = 14 if quick else 600
    ctx.rule = ("generated workspaces (shadowing, overrides, imported, autouse, plugin and third-party fixtures); 3 invocations "
                "x 2 formats x filter flags x worker counts; distinct = (workspace features, invocation, outcome class)")
    vh = VH(vh_bin(), locklog=os.path.join(ctx.scratch_root, "lock_vh.log"))
    try:
        pinned(ctx, vh)
        if os.environ.get("VERIF_ONLY_PINNED"):
            return
        for i in range(n):
            root = ctx.scratch(f"w{i}")
            ws = directed_unused_chain(root) if i == 1 else \
                gen.gen_workspace(root, ctx.rng, venv=(i % 4 == 0), allow_imports=(i % 2 == 0), depth=ctx.rng.randint(2, 4))
            materialize(ws)
            db = vh.new_db()
            vh.call(op="scan", db=db, root=root)
            raw = vh.call(op="raw", db=db)
            q = vh.call(op="queries", db=db)
            vh.call(op="drop_db", db=db)
            sens, model = sensitive(ws, raw)
            refs = {tuple(r["def"]): r["refs"] for r in q["refs"]}
            count = Counter()
            meta = {}
            for name, defs in raw["definitions"].items():
                for d in defs:
                    key = (os.path.relpath(d["file"], root), name)
                    count[key] += len(refs.get((d["file"], d["line"], name), []))
                    m = meta.setdefault(key, {"tp": False, "auto_all": True, "auto_any": False})
                    m["tp"] |= d["third_party"]
                    m["auto_all"] &= d["autouse"]
                    m["auto_any"] |= d["autouse"]
            exp_unused = {k for k, c in count.items() if c == 0 and not meta[k]["tp"] and not meta[k]["auto_all"]}
            outs = {}
            for threads in ("1", "4", "16"):
                env = {"RAYON_NUM_THREADS": threads}
                for name, args in (("unused_text", ["fixtures", "unused", root]), ("unused_json", ["fixtures", "unused", root, "--format", "json"]),
                                   ("list", ["fixtures", "list", root]), ("list_skip", ["fixtures", "list", root, "--skip-unused"]),
                                   ("list_only", ["fixtures", "list", root, "--only-unused"])):
                    rc, out, err = run_cli(srv_bin(), args, env=env)
                    if "panicked" in err:
                        ctx.violation({"kind": "cli-panicked", "inv": name}, {"stderr": err[-600:]}, files=ws.files)
                    outs[(threads, name)] = (rc, out)
            # ---- reproducibility ---------------------------------------------------------------------------------
            for name in ("unused_text", "unused_json", "list", "list_skip", "list_only"):
                ctx.judged()
                base = outs[("1", name)]
                for threads in ("4", "16"):
                    if outs[(threads, name)] != base:
                        a, _ = parse_tree(base[1]) if name.startswith("list") else ({}, None)
                        b, _ = parse_tree(outs[(threads, name)][1]) if name.startswith("list") else ({}, None)
                        names = {k[1] for k in set(a) | set(b) if a.get(k) != b.get(k)}
                        if not name.startswith("list"):
                            ua = set(parse_unused_text(base[1])) if name == "unused_text" else {(x["file"], x["fixture"]) for x in json.loads(base[1] or "[]")}
                            ub = set(parse_unused_text(outs[(threads, name)][1])) if name == "unused_text" else {(x["file"], x["fixture"]) for x in json.loads(outs[(threads, name)][1] or "[]")}
                            names = {k[1] for k in ua ^ ub}
                        if names and names <= sens and ctx.known(KF_ORDER):
                            ctx.count("kf_runs_differ")
                        else:
                            ctx.violation({"kind": "output-not-reproducible", "inv": name, "names": sorted(names)[:5]},
                                          {"threads": threads, "a": base[1][-500:], "b": outs[(threads, name)][1][-500:]}, files=ws.files)
                        break
            # ---- unused: entries, exit status, JSON == text ---------------------------------------------------------
            rc_t, out_t = outs[("1", "unused_text")]
            rc_j, out_j = outs[("1", "unused_json")]
            ctx.judged()
            try:
                js = json.loads(out_j)
                jset = [(x["file"], x["fixture"]) for x in js]
            except Exception as e:
                ctx.violation({"kind": "json-output-invalid"}, {"out": out_j[-400:], "err": str(e)}, files=ws.files)
                jset = None
            tset = parse_unused_text(out_t)
            if jset is not None:
                if sorted(set(jset)) != sorted(set(tset)):
                    diffn = {k[1] for k in set(jset) ^ set(tset)}
                    if diffn <= sens and ctx.known(KF_ORDER):
                        ctx.count("kf_json_text_differ")
                    else:
                        ctx.violation({"kind": "json-and-text-entries-differ", "only_json": sorted(set(jset) - set(tset))[:3],
                                       "only_text": sorted(set(tset) - set(jset))[:3]}, {}, files=ws.files)
                for fmt, rc_, ents in (("text", rc_t, tset), ("json", rc_j, jset)):
                    ctx.judged()
                    if rc_ != (1 if ents else 0):
                        ctx.violation({"kind": "exit-status", "format": fmt}, {"rc": rc_, "entries": len(ents)}, files=ws.files)
                    got = set(ents)
                    bad = {k for k in got ^ exp_unused if k[1] not in sens}
                    if bad:
                        ctx.violation({"kind": "unused-set-differs-from-reference-sets", "format": fmt,
                                       "only_cli": sorted(got - exp_unused)[:3], "only_refs": sorted(exp_unused - got)[:3]},
                                      {"sensitive": sorted(sens)}, files=ws.files)
                    elif got ^ exp_unused:
                        ctx.known(KF_ORDER) and ctx.count("kf_unused_order_sensitive")
            # ---- list: counts and partition -------------------------------------------------------------------------
            full, _ = parse_tree(outs[("1", "list")][1])
            skip, _ = parse_tree(outs[("1", "list_skip")][1])
            only, _ = parse_tree(outs[("1", "list_only")][1])
            ctx.judged()
            for key, info in full.items():
                if key[1] in sens:
                    continue
                if key in count and info["count"] != count[key]:
                    ctx.violation({"kind": "list-count-differs-from-references", "fixture": list(key)},
                                  {"cli": info, "references": count[key]}, files=ws.files)
            ctx.judged()
            if set(skip) & set(only) or (set(skip) | set(only)) != set(full):
                miss = set(full) - set(skip) - set(only)
                both = set(skip) & set(only)
                if {k[1] for k in miss | both} <= sens and ctx.known(KF_ORDER):
                    ctx.count("kf_partition_order_sensitive")
                else:
                    ctx.violation({"kind": "filters-do-not-partition", "in_neither": sorted(miss)[:3], "in_both": sorted(both)[:3]}, {}, files=ws.files)
            # reference model: every fixture of a conftest / test file, and of every module those files pull in through star
            # imports (transitively), is listed - whatever the implementation's own index contains
            closure = [ws.abs(r) for r in ws.workspace_py()
                       if os.path.basename(r) == "conftest.py" or os.path.basename(r).startswith("test_") or r.endswith("_test.py")]
            seen_f = set(closure)
            while closure:
                f_ = closure.pop()
                fm = model.models.get(f_)
                if fm is None or not fm.ok:
                    continue
                for imp in fm.imports:
                    if imp[0] != "star":
                        continue
                    tgt = model.resolve_module(imp[1], f_)
                    if tgt and tgt not in seen_f and "/.venv/" not in tgt:
                        seen_f.add(tgt)
                        closure.append(tgt)
            ctx.judged()
            model_missing = sorted((os.path.relpath(f_, root), d_["name"]) for f_ in seen_f
                                   for d_ in (model.models[f_].defs if model.models.get(f_) is not None and model.models[f_].ok else [])
                                   if (os.path.relpath(f_, root), d_["name"]) not in full)
            if model_missing:
                ctx.violation({"kind": "fixture-of-a-collected-or-imported-module-missing-from-list", "missing": model_missing[:4]},
                              {"n_missing": len(model_missing)}, files=ws.files)
            # every indexed project definition appears in the full list
            missing = {k for k in count if k not in full}
            ctx.judged()
            if missing:
                ctx.violation({"kind": "fixture-missing-from-list", "missing": sorted(missing)[:4]}, {}, files=ws.files)
            ctx.nontrivial((tuple(sorted(str(f) for f in ws.features))[:6], bool(exp_unused), bool(sens)))
            ctx.nontrivial(("ws", i % 7, len(exp_unused) > 0, rc_t))
            ctx.sample({"spec": ws.spec, "unused_text": out_t[-400:], "exit": rc_t})
            ctx.count("workspaces")
            shutil.rmtree(root, ignore_errors=True)
        for i in range(6 if quick else 200):
            venv_layout_counts(ctx, vh, i)
        odd_paths(ctx)
        same_names_everywhere(ctx, 8 if quick else 200)
    finally:
        vh.close()


def venv_layout_counts(ctx, vh, i):
    """virtual environments with site-packages plugins and editable installs inside / outside the workspace (several
    fixtures per plugin module): the count `fixtures list` shows for a fixture = the number of references the index has"""
    from .c14 import gen_venv_layout
    base = ctx.scratch(f"vl{i}")
    root, outside = os.path.join(base, "ws"), os.path.join(base, "outside")
    files, ext_files, expect = gen_venv_layout(root, outside, ctx.rng)
    write_tree(root, files)
    write_tree(outside, ext_files)
    root = os.path.realpath(root)
    db = vh.new_db()
    vh.call(op="scan", db=db, root=root)
    raw = vh.call(op="raw", db=db)
    q = vh.call(op="queries", db=db)
    vh.call(op="drop_db", db=db)
    refs = {tuple(r["def"]): len(r["refs"]) for r in q["refs"]}
    # one record per definition in the text: a file walked twice must not be indexed twice
    for name, defs in raw["definitions"].items():
        keys = [(d["file"], d["line"]) for d in defs]
        ctx.judged()
        if len(keys) != len(set(keys)):
            ctx.violation({"kind": "definition-indexed-twice", "fixture": name}, {"records": keys}, files=files)
    rcu, outu, erru = run_cli(srv_bin(), ["fixtures", "unused", root])
    ents = parse_unused_text(outu)
    ctx.judged()
    if len(ents) != len(set(ents)):
        ctx.violation({"kind": "unused-entry-listed-twice", "entries": sorted({e_ for e_ in ents if ents.count(e_) > 1})[:3]}, {"out": outu[-500:]}, files=files)
    by_name = {}
    for name, defs in raw["definitions"].items():
        if len(defs) == 1:
            d = defs[0]
            by_name[name] = refs.get((d["file"], d["line"], name), 0)
    rc, out, err = run_cli(srv_bin(), ["fixtures", "list", root])
    if "panicked" in err:
        ctx.violation({"kind": "cli-panicked", "inv": "list(venv layout)"}, {"stderr": err[-600:]}, files=files)
        return
    tree, _ = parse_tree(out)
    seen = 0
    for (frel, name), info in tree.items():
        if name in by_name and name in expect:
            ctx.judged()
            seen += 1
            if info["count"] != by_name[name]:
                ctx.violation({"kind": "list-count-differs-from-references", "fixture": name, "tier": expect[name]["tier"],
                               "shown_under": frel.split("site-packages")[-1] if "site-packages" in frel else frel},
                              {"cli": info, "references": by_name[name], "defined_in": expect[name]["rel"]}, files=files | {"outside/" + k: v for k, v in ext_files.items()})
            ctx.nontrivial(("venv_layout", expect[name]["tier"], info["count"] > 0))
    ctx.count("venv_layout_fixtures_compared", seen)
    shutil.rmtree(base, ignore_errors=True)


def same_names_everywhere(ctx, runs):
    """many conftest files defining the same (unused) names, scanned by the CLI's parallel walk with injected delays: every
    run reports every definition, once"""
    base = ctx.scratch("same")
    ndirs, nnames = 40, 30
    files = {}
    for d_ in range(ndirs):
        files[f"p{d_:02d}/conftest.py"] = "import pytest\n\n" + "".join(f"@pytest.fixture\ndef same_{k}():\n    return {k}\n\n" for k in range(nnames))
    write_tree(base, files)
    want = sorted((f"p{d_:02d}/conftest.py", f"same_{k}") for d_ in range(ndirs) for k in range(nnames))
    for k in range(runs):
        env = {"RAYON_NUM_THREADS": "16", "VERIF_DELAY": f"{ctx.seed * 13 + k}:150000", "VERIF_SHARDS": "2"}
        rc, out, err = run_cli(srv_bin(), ["fixtures", "unused", base, "--format", "json"], env=env)
        ctx.judged()
        try:
            got = sorted((x["file"], x["fixture"]) for x in json.loads(out))
        except Exception as e:
            ctx.violation({"kind": "json-output-invalid", "case": "same names in many files"}, {"err": str(e), "stderr": err[-300:]})
            break
        if got != want or rc != 1:
            ctx.violation({"kind": "unused-report-loses-or-repeats-definitions", "run": k},
                          {"reported": len(got), "defined": len(want), "rc": rc, "missing": [x for x in want if x not in got][:4],
                           "repeated": sorted({x for x in got if got.count(x) > 1})[:4]})
            break
    ctx.nontrivial(("same_names_everywhere", runs > 0))
    ctx.count("same_names_cli_runs", runs)
    shutil.rmtree(base, ignore_errors=True)


def odd_paths(ctx):
    """a directory whose name is not valid UTF-8: both formats of `fixtures unused` still agree, JSON stays valid"""
    base = ctx.scratch("odd")
    root = os.path.join(base, "ws")
    write_tree(root, {"conftest.py": "import pytest\n\n@pytest.fixture\ndef used_fx():\n    return 1\n",
                      "test_ok.py": "def test_ok(used_fx):\n    pass\n"})
    odd = os.path.join(os.fsencode(root), b"caf\xe9_dir")
    os.makedirs(odd, exist_ok=True)
    with open(os.path.join(odd, b"conftest.py"), "w") as f:
        f.write("import pytest\n\n@pytest.fixture\ndef lonely_in_odd_dir():\n    return 1\n")
    with open(os.path.join(odd, b"test_x.py"), "w") as f:
        f.write("def test_x(used_fx):\n    pass\n")
    res = {}
    for fmt in ("text", "json"):
        rc, out, err = run_cli(srv_bin(), ["fixtures", "unused", root] + (["--format", "json"] if fmt == "json" else []))
        res[fmt] = (rc, out, err)
        ctx.judged()
        if "panicked" in err or rc not in (0, 1):
            ctx.violation({"kind": "cli-fails-on-non-utf8-path", "format": fmt}, {"rc": rc, "stderr": err[-500:]})
    try:
        js = json.loads(res["json"][1])
        names_j = sorted(x["fixture"] for x in js)
    except Exception as e:
        ctx.violation({"kind": "json-output-invalid", "case": "non-utf8 directory name"}, {"out": res["json"][1][-300:], "err": str(e)})
        names_j = None
    names_t = sorted(k[1] for k in parse_unused_text(res["text"][1]))
    if names_j is not None:
        ctx.judged()
        if names_j != names_t or res["json"][0] != res["text"][0] or names_t != ["lonely_in_odd_dir"]:
            ctx.violation({"kind": "json-and-text-entries-differ", "case": "non-utf8 directory name"},
                          {"json": names_j, "text": names_t, "rc": [res["json"][0], res["text"][0]]})
    ctx.nontrivial(("odd_paths", tuple(names_t)))
    shutil.rmtree(base, ignore_errors=True)


def pinned(ctx, vh):
    """deterministic demonstration of the recorded finding: the unused report of the pinned workspace depends on the
    registration order (which the CLI's parallel scan does not fix)"""
    from ..witness import WITNESS, ws_from_witness
    w = WITNESS[KF_ORDER]
    ws = ws_from_witness(ctx, w)
    res = []
    sens = set()
    for order in (w["order"], w["other_order"]):
        db = vh.new_db()
        vh.call(op="batch", cmds=[{"op": "analyze_fresh", "db": db, "path": ws.abs(r), "text": ws.files[r]} for r in order])
        res.append(sorted(map(tuple, vh.call(op="unused", db=db)["unused"])))
        if not sens:
            sens, _m = sensitive(ws, vh.call(op="raw", db=db))
        vh.call(op="drop_db", db=db)
    ctx.judged()
    if res[0] != res[1]:
        names = {k[1] for k in set(res[0]) ^ set(res[1])}
        if names <= sens and ctx.known(KF_ORDER):
            ctx.count("kf_pinned_witness")
        else:
            ctx.violation({"kind": "unused-report-depends-on-order", "names": sorted(names)}, {"a": res[0], "b": res[1]}, files=ws.files)
    shutil.rmtree(ws.root, ignore_errors=True)
