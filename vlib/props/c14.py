"""C14 — imported and plugin fixtures are discovered transitively and classified.

Monitor: reference-model monitor.
  (A) generated import graphs over fixture modules (star / explicit / pytest_plugins edges, relative levels
      1-3 and absolute dotted paths, packages vs modules, cycles, diamonds, last-assignment-wins
      pytest_plugins) entered from conftest.py files and test modules: per requesting file, the fixtures
      the real index makes available and the module each resolves to are compared with the import-closure
      model; every reachable module must be indexed.
  (B) generated virtualenv layouts (dist-info / egg-info entry points, module vs package targets, attr
      suffixes, editable installs inside/outside the workspace with the .pth naming variants, pytest
      built-ins, plugin modules importing further modules): discovery, third-party / workspace-plugin
      classification, tier visibility, and absence from project symbols (real server).
"""
import json, os, shutil

from .. import gen
from ..common import Inconclusive, write_tree
from ..lsp import LSP, uri_to_path
from ..pymodel import WorkspaceModel, FileModel
from ..runner import vh_bin, srv_bin, def_index, expected_target, res_kind, predict_import_branch
from ..vh import VH

KF_TESTMOD = "KF-C14-imports-into-test-module-not-resolvable"
KF_IMPORT_FIRST = "KF-C14-import-first-registered"
KF_EXPLICIT_PLUGIN = "KF-C14-explicit-import-in-plugin-not-propagated"
HDR = "import pytest\n\n"


def fx(name, k):
    return f'@pytest.fixture\ndef {name}():\n    """DOC{k}"""\n    return {k}\n\n'


def gen_import_graph(root, rng):
    ws = gen.WS(root)
    dirs = ["pkg", "pkg/sub", "pkg/sub/deep", "pkg/other"]
    n = rng.randint(3, 8)
    mods = []
    for i in range(n):
        d = rng.choice(dirs)
        if rng.random() < 0.25:
            rel = f"{d}/p{i}/__init__.py"
            dotted_tail = f"p{i}"
        elif rng.random() < 0.2 and f"{d}/{gen.STDLIB_LIKE[i % len(gen.STDLIB_LIKE)]}.py" not in [m_["rel"] for m_ in mods]:
            # a local module may carry a stdlib module's name; only relative / dotted imports reach it
            dotted_tail = gen.STDLIB_LIKE[i % len(gen.STDLIB_LIKE)]
            rel = f"{d}/{dotted_tail}.py"
            ws.features.add(("stdlib_named_local_module",))
        else:
            rel = f"{d}/m{i}.py"
            dotted_tail = f"m{i}"
        mods.append({"i": i, "rel": rel, "dir": d, "tail": dotted_tail, "fix": f"f{i}", "imports": []})
    # edges
    for m in mods:
        for _ in range(rng.randint(0, 3)):
            t = rng.choice(mods)
            if t is m and rng.random() < 0.7:
                continue
            kind = rng.choice(["star", "star", "explicit", "plugins"])
            m["imports"].append((kind, t))
    def import_stmt(src_rel, kind, t, names=None):
        src_dir = os.path.dirname(src_rel)
        if os.path.basename(src_rel) == "__init__.py":
            pass
        tdir = t["dir"]
        # relative if possible
        rel_ok = None
        sd = src_dir.split("/")
        td = tdir.split("/")
        if sd[:len(td)] == td and len(sd) - len(td) <= 2:
            level = len(sd) - len(td) + 1
            rel_ok = "." * level + t["tail"]
        absolute = tdir.replace("/", ".") + "." + t["tail"]
        same_dir = tdir == src_dir
        choices = [absolute]
        if rel_ok:
            choices += [rel_ok, rel_ok]
        if same_dir and t["tail"] not in gen.STDLIB_LIKE:
            choices.append(t["tail"])
        target = rng.choice(choices)
        if kind == "plugins":
            return ("plugins", target.lstrip(".") if not target.startswith(".") else absolute)
        if kind == "star":
            return ("stmt", f"from {target} import *\n")
        name = t["fix"]
        via = [t2 for k2, t2 in t["imports"] if k2 == "star" and t2 is not t]
        if via and rng.random() < 0.4:
            # a name the target module itself only re-exports (from its own star import)
            name = rng.choice(via)["fix"]
            ws.features.add(("explicit_import_of_reexported_name",))
        return ("stmt", f"from {target} import {name}\n")
    k = 0
    for m in mods:
        k += 1
        stmts, plugins = [], []
        for kind, t in m["imports"]:
            r = import_stmt(m["rel"], kind, t)
            (plugins if r[0] == "plugins" else stmts).append(r[1])
        src = "".join(stmts)
        if plugins:
            if len(plugins) > 1 and rng.random() < 0.3:
                # last assignment wins
                src += f'pytest_plugins = ["{plugins[0]}"]\n'
                src += "pytest_plugins = [" + ", ".join(f'"{p}"' for p in plugins[1:]) + "]\n"
                ws.features.add(("pytest_plugins_reassigned",))
            elif rng.random() < 0.2:
                # a later, non-literal assignment replaces the literal list: nothing is declared any more
                src += "pytest_plugins = [" + ", ".join(f'"{p}"' for p in plugins) + "]\n"
                src += rng.choice(["pytest_plugins = _discover_plugins()\n", "pytest_plugins = PLUGINS\n", "pytest_plugins = None\n"])
                ws.features.add(("pytest_plugins_replaced_by_dynamic_value",))
            else:
                src += "pytest_plugins = [" + ", ".join(f'"{p}"' for p in plugins) + "]\n"
        ws.files[m["rel"]] = src + HDR + fx(m["fix"], k)
    # entries
    names = [m["fix"] for m in mods]
    entries = []
    for d in rng.sample(dirs, rng.randint(1, 3)):
        t = rng.choice(mods)
        kind = rng.choice(["star", "explicit", "plugins"])
        r = import_stmt(f"{d}/conftest.py", kind, t)
        body = r[1] if r[0] == "stmt" else f'pytest_plugins = ["{r[1]}"]\n'
        ws.files[f"{d}/conftest.py"] = body
        entries.append((d, kind, t["i"]))
    probe = "".join(f"def test_p_{nm}({nm}):\n    pass\n\n" for nm in names)
    for d in dirs + [""]:
        ws.files[os.path.join(d, "test_probe.py")] = probe
    # a test module that imports fixtures directly
    t = rng.choice(mods)
    r = import_stmt("pkg/test_direct.py", rng.choice(["star", "explicit"]), t)
    ws.files["pkg/test_direct.py"] = r[1] + probe
    ws.spec = {"depth": 3, "names": names, "mods": [(m["rel"], [(k_, t_["i"]) for k_, t_ in m["imports"]]) for m in mods], "entries": entries}
    return ws


def judge_import_ws(ctx, vh, db, ws, model, root):
    raw = vh.call(op="raw", db=db)
    order = def_index(raw)
    indexed = set(raw["file_definitions"])
    # reachability: every module reachable from a conftest / test file through the import graph is indexed
    reach = set()
    stack = [ws.abs(r_) for r_ in ws.files if os.path.basename(r_) == "conftest.py" or os.path.basename(r_).startswith("test_")]
    seen = set(stack)
    while stack:
        f = stack.pop()
        m = model.models.get(f)
        if not m or not m.ok:
            continue
        for imp in m.imports:
            tgt = model.resolve_module(imp[1], f)
            if tgt and tgt not in seen:
                seen.add(tgt); stack.append(tgt); reach.add(tgt)
    for f in sorted(reach):
        ctx.judged()
        if model.models[f].defs and f not in indexed:
            ctx.violation({"kind": "reachable-module-not-indexed", "module": os.path.relpath(f, root)}, {"spec": ws.spec}, files=ws.files)
    # resolution from every probe
    for rel in ws.files:
        if not os.path.basename(rel).startswith("test_"):
            continue
        f = ws.abs(rel)
        m = model.models[f]
        direct = bool(m.imports)
        for u in m.usages:
            res, ex = model.resolve_usage(f, u)
            exp = expected_target(res)
            # names a test module imports itself
            if direct:
                own = model.imported_into(f)
                if u["name"] in own:
                    exp = {(own[u["name"]][0], own[u["name"]][1]["line"])}
                    res = ("def", own[u["name"]][0], own[u["name"]][1], "own_import")
            a = vh.call(op="goto", db=db, path=f, line=u["line"] - 1, char=u["start_b"])
            t = a.get("target")
            act = (t["file"], t["line"]) if t else None
            ctx.judged()
            ok = (act is None and exp is None) or (act is not None and exp is not None and act in exp)
            if ok:
                if exp:
                    ctx.nontrivial(("a", res_kind(res), len(ws.spec["mods"]) > 4))
                continue
            if res is not None and res[3] == "own_import":
                # resolver only consults conftest imports: the answer is what resolution without the test
                # module's own imports gives
                r2, _ = model.resolve_usage(f, u)
                e2 = expected_target(r2)
                pred = predict_import_branch(model, order, f, u["name"], ex)
                if ((act is None and e2 is None) or (act is not None and ((e2 and act in e2) or act == pred))) and ctx.known(KF_TESTMOD):
                    continue
            pred = predict_import_branch(model, order, f, u["name"], ex)
            if pred is not None and act == pred and ctx.known(KF_IMPORT_FIRST):
                continue
            ctx.violation({"kind": "import-resolution", "file": rel, "name": u["name"],
                           "expected": sorted((os.path.relpath(a_, root), b_) for a_, b_ in exp) if exp else None,
                           "actual": (os.path.relpath(act[0], root), act[1]) if act else None},
                          {"spec": ws.spec, "kind": res_kind(res) if res else None}, files=ws.files)


def directed_plugins_ws(root):
    """pytest_plugins assigned more than once per conftest: the last assignment alone counts, whatever its form (plain after
    annotated, annotated after plain, non-literal after literal, literal after non-literal)"""
    ws = gen.WS(root)
    mods = ["old_a", "new_a", "old_b", "new_b", "old_c", "new_d"]
    for k, m in enumerate(mods):
        ws.files[f"pkg/{m}.py"] = HDR + fx("f_" + m, k)
    ws.files["pkg/__init__.py"] = ""
    ws.files["pkg/conftest.py"] = 'pytest_plugins = ["pkg.old_a"]\npytest_plugins: list[str] = ["pkg.new_a"]\n'
    ws.files["pkg/sub/conftest.py"] = 'pytest_plugins: list[str] = ["pkg.old_b"]\npytest_plugins = ["pkg.new_b"]\n'
    ws.files["pkg/other/conftest.py"] = 'pytest_plugins = ["pkg.old_c"]\npytest_plugins = _discover_plugins()\n'
    ws.files["pkg/sub/deep/conftest.py"] = 'pytest_plugins = _discover_plugins()\npytest_plugins = ("pkg.new_d",)\n'
    names = ["f_" + m for m in mods]
    probe = "".join(f"def test_p_{nm}({nm}):\n    pass\n\n" for nm in names)
    for d in ("pkg", "pkg/sub", "pkg/other", "pkg/sub/deep", ""):
        ws.files[os.path.join(d, "test_probe.py")] = probe
    ws.spec = {"depth": 3, "names": names, "mods": [], "entries": [], "directed": "pytest_plugins assigned twice"}
    return ws


def part_a(ctx, vh, n):
    for i in range(n):
        root = ctx.scratch(f"g{i}")
        ws = directed_plugins_ws(root) if i == 0 else gen_import_graph(root, ctx.rng)
        write_tree(root, ws.files)
        model = ws.model()
        db = vh.new_db()
        r = vh.call(op="scan", db=db, root=root)
        if "panic" in r:
            raise Inconclusive(f"scan panicked: {r}")
        judge_import_ws(ctx, vh, db, ws, model, root)
        vh.call(op="drop_db", db=db)
        ctx.sample({"spec": ws.spec})
        ctx.count("import_graphs")
        shutil.rmtree(root, ignore_errors=True)


# ------------------------------------------------------------------------------------------------------------

def gen_venv_layout(root, outside, rng):
    """returns (files, expect) ; expect: {fixture name: {'tier': 'third_party'|'plugin'|'none', 'file': rel or abs}}"""
    sp = f".venv/lib/{gen.PYVER}/site-packages"
    files = {"conftest.py": HDR, f"{sp}/_pytest/__init__.py": "", ".venv/pyvenv.cfg": "home = /usr\n"}
    ext_files = {}
    expect = {}
    k = [0]

    def add(files_, rel, name, tier, extra_src=""):
        k[0] += 1
        files_[rel] = files_.get(rel, "") + extra_src + (HDR if "import pytest" not in files_.get(rel, "") + extra_src else "") + fx(name, k[0])
        expect[name] = {"tier": tier, "rel": rel, "k": k[0]}
    # pytest builtins
    if rng.random() < 0.8:
        add(files, f"{sp}/_pytest/tmpdir.py", "builtin_tmp", "third_party")
        if rng.random() < 0.5:
            add(files, f"{sp}/_pytest/sub/nested.py", "builtin_nested", "third_party")
    # site-packages plugins
    for j in range(rng.randint(1, 3)):
        meta = rng.choice(["dist-info", "egg-info"])
        pkg = f"plug{j}"
        style = rng.choice(["module", "package", "submodule", "attr"])
        name = f"tp{j}"
        if style == "module":
            add(files, f"{sp}/{pkg}.py", name, "third_party")
            ep = f"x{j} = {pkg}\n"
        elif style == "attr":
            add(files, f"{sp}/{pkg}.py", name, "third_party")
            ep = f"x{j} = {pkg}:Plugin\n"
        elif style == "submodule":
            files[f"{sp}/{pkg}/__init__.py"] = ""
            add(files, f"{sp}/{pkg}/plugin.py", name, "third_party")
            add(files, f"{sp}/{pkg}/not_loaded.py", name + "_notloaded", "none")
            ep = f"x{j} = {pkg}.plugin\n"
        else:
            add(files, f"{sp}/{pkg}/__init__.py", name, "third_party")
            add(files, f"{sp}/{pkg}/fixtures.py", name + "_sub", "third_party")
            add(files, f"{sp}/{pkg}/a/b/deep.py", name + "_deep", "third_party")
            add(files, f"{sp}/{pkg}/test_skipme.py", name + "_intest", "none")
            ep = f"x{j} = {pkg}\n"
        # further modules pulled in by the plugin module
        if style in ("module", "submodule") and rng.random() < 0.6:
            how = rng.choice(["star", "plugins", "explicit"])
            helper = f"{pkg}_helpers"
            add(files, f"{sp}/{helper}.py", name + "_h", "third_party")
            target_rel = f"{sp}/{pkg}.py" if style != "submodule" else f"{sp}/{pkg}/plugin.py"
            stmt = {"star": f"from {helper} import *\n", "plugins": f'pytest_plugins = ["{helper}"]\n',
                    "explicit": f"from {helper} import {name}_h\n"}[how]
            files[target_rel] = stmt + files[target_rel]
        ver = rng.choice(["1.0", "2.3.4", "0.1.dev0"])
        files[f"{sp}/{pkg}-{ver}.{meta}/entry_points.txt"] = rng.choice(["", "[console_scripts]\na = b:c\n\n"]) + "[pytest11]\n" + ep
    # a package without pytest11
    files[f"{sp}/nopy-1.0.dist-info/entry_points.txt"] = "[console_scripts]\na = b:c\n"
    add(files, f"{sp}/nopy.py", "not_a_plugin", "none")
    # editable installs
    for j, inside in enumerate([True, False]):
        if rng.random() < 0.3:
            continue
        raw = rng.choice([f"ed{j}", f"ed{j}-pkg.x", f"Ed_{j}", f"ed{j}.sub"])
        norm = raw.replace("-", "_").replace(".", "_").lower()
        pkgdir = f"edpkg{j}"
        src_root = (os.path.join(root, f"editables/e{j}") if inside else os.path.join(outside, f"e{j}"))
        target = files if inside else ext_files
        base = f"editables/e{j}" if inside else f"e{j}"
        nm = f"ed{j}_fix"
        tier = "plugin" if inside else "third_party"
        add(target, f"{base}/{pkgdir}/plugin.py", nm, tier)
        for extra_ in range(rng.randint(0, 2)):
            add(target, f"{base}/{pkgdir}/plugin.py", f"{nm}_x{extra_}", tier)      # several fixtures in one plugin module
        if rng.random() < 0.5:
            # the assignment style (name = pytest.fixture()(func)) is classified like the decorator style
            k[0] += 1
            target[f"{base}/{pkgdir}/plugin.py"] += f"def _impl_{nm}():\n    return {k[0]}\n\n{nm}_asg = pytest.fixture()(_impl_{nm})\n\n"
            expect[f"{nm}_asg"] = {"tier": tier, "rel": f"{base}/{pkgdir}/plugin.py", "k": k[0]}
        target[f"{base}/{pkgdir}/__init__.py"] = ""
        how = rng.choice(["none", "star", "explicit", "plugins"])
        if how != "none":
            hn = nm + "_h"
            add(target, f"{base}/{pkgdir}/helpers.py", hn, tier if how != "explicit" else ("explicit_" + tier))
            stmt = {"star": "from .helpers import *\n", "plugins": f'pytest_plugins = ["{pkgdir}.helpers"]\n',
                    "explicit": f"from .helpers import {hn}\n"}[how]
            target[f"{base}/{pkgdir}/plugin.py"] = stmt + target[f"{base}/{pkgdir}/plugin.py"]
            if how != "explicit" and rng.random() < 0.6:
                # a longer chain: helpers -> level2 -> level3 (plugin status must propagate along it)
                add(target, f"{base}/{pkgdir}/level2.py", nm + "_l2", tier)
                add(target, f"{base}/{pkgdir}/level3.py", nm + "_l3", tier)
                target[f"{base}/{pkgdir}/helpers.py"] = rng.choice(["from .level2 import *\n", f'pytest_plugins = ["{pkgdir}.level2"]\n']) + target[f"{base}/{pkgdir}/helpers.py"]
                target[f"{base}/{pkgdir}/level2.py"] = "from .level3 import *\n" + target[f"{base}/{pkgdir}/level2.py"]
                if inside and rng.random() < 0.6:
                    # diamond: an ordinary conftest reaches the middle of the plugin's import chain directly
                    target[f"{base}/{pkgdir}/tests/conftest.py"] = "from ..level2 import *\n"
                    target[f"{base}/{pkgdir}/tests/__init__.py"] = ""
        ver = "0.1"
        ep_target = f"{pkgdir}.plugin"
        if inside and rng.random() < 0.4:
            # the entry point names the PACKAGE; the package also carries its own tests (conftest + test module), which the
            # workspace walk has already indexed when the plugin phase walks the package directory
            ep_target = pkgdir
            target[f"{base}/{pkgdir}/__init__.py"] = "from .plugin import *\n"
            tc = f"{base}/{pkgdir}/tests/conftest.py"
            k[0] += 1
            target[tc] = target.get(tc, "") + (HDR if "import pytest" not in target.get(tc, "") else "") + fx(f"{nm}_intests", k[0])
            expect[f"{nm}_intests"] = {"tier": "dontcare", "rel": tc, "k": k[0]}
            target[f"{base}/{pkgdir}/tests/__init__.py"] = ""
            target[f"{base}/{pkgdir}/tests/test_inside.py"] = f"def test_inside({nm}_intests, {nm}):\n    pass\n"
        files[f"{sp}/{raw}-{ver}.dist-info/entry_points.txt"] = f"[pytest11]\ne{j} = {ep_target}\n"
        files[f"{sp}/{raw}-{ver}.dist-info/direct_url.json"] = json.dumps({"url": "file://" + src_root, "dir_info": {"editable": True}})
        pth = rng.choice([f"__editable__.{norm}-{ver}.pth", f"_{norm}.pth", f"{norm}.pth", f"__editable__.{raw}-{ver}.pth"])
        files[f"{sp}/{pth}"] = rng.choice(["", "# comment\n", "import sys\n"]) + src_root + "\n"
    # an editable install whose source root is an ANCESTOR of the workspace (pip install -e of the repository root,
    # editor opened on a sub-directory): its plugin module is third-party, the workspace's own files are not
    if not ext_files and rng.random() < 0.6:
        # (the implementation treats "workspace inside the editable source root" as the project itself: workspace plugin)
        parent = os.path.dirname(root)
        add(ext_files, "../upplug.py", "up_fix", "plugin")
        files[f"{sp}/upproj-0.1.dist-info/entry_points.txt"] = "[pytest11]\nup = upplug\n"
        files[f"{sp}/upproj-0.1.dist-info/direct_url.json"] = json.dumps({"url": "file://" + parent, "dir_info": {"editable": True}})
        files[f"{sp}/__editable__.upproj-0.1.pth"] = parent + "\n"
    # fixtures of a sibling directory (its conftest and a helper only that conftest imports) are invisible from the probes
    files["sib/__init__.py"] = ""
    add(files, "sib/sib_helper.py", "ws_sib_helper_fx", "none")
    files["sib/conftest.py"] = "from .sib_helper import *\n"
    add(files, "sib/conftest.py", "ws_sibling_fx", "none")
    names = sorted(expect)
    files["test_probe.py"] = "".join(f"def test_p_{nm}({nm}):\n    pass\n\n" for nm in names)
    files["sub/test_probe.py"] = files["test_probe.py"]
    return files, ext_files, expect


def part_b(ctx, vh, n, n_srv):
    for i in range(n):
        base = ctx.scratch(f"v{i}")
        root = os.path.join(base, "ws")
        outside = os.path.join(base, "outside")
        os.makedirs(root); os.makedirs(outside)
        root = os.path.realpath(root); outside = os.path.realpath(outside)
        files, ext_files, expect = gen_venv_layout(root, outside, ctx.rng)
        write_tree(root, files)
        write_tree(outside, ext_files)
        db = vh.new_db()
        scan_root = root
        if i % 2 == 1:
            # the client names the workspace through a symbolic link: classification (project / plugin / third-party) and
            # everything else must be what it is for the real path
            scan_root = os.path.join(base, "ws_link")
            os.symlink(root, scan_root)
            ctx.nontrivial(("venv_layout_scanned_through_a_symlinked_root",))
        r = vh.call(op="scan", db=db, root=scan_root)
        if "panic" in r:
            ctx.violation({"kind": "scan-panicked"}, {"r": r}, files=files)
            continue
        # the editor opens (re-analyses) the sibling conftest after the scan
        vh.call(op="analyze", db=db, path=os.path.join(root, "sib/conftest.py"), text=files["sib/conftest.py"])
        if i % 2 == 0:
            # ... and the modules of the in-workspace plugin are opened, closed and opened again (texts unchanged)
            for rel_, txt_ in files.items():
                if rel_.startswith("editables/") and rel_.endswith(".py") and not rel_.endswith("conftest.py"):
                    p_ = os.path.join(root, rel_)
                    vh.call(op="analyze", db=db, path=p_, text=txt_)
                    vh.call(op="close", db=db, path=p_)
                    vh.call(op="analyze", db=db, path=p_, text=txt_)
            ctx.nontrivial(("b", "plugin_modules_reopened"))
        raw = vh.call(op="raw", db=db)
        probe = os.path.join(root, "test_probe.py")
        pm = FileModel(files["test_probe.py"], probe)
        for u in pm.usages:
            e = expect[u["name"]]
            where = os.path.join(root, e["rel"]) if (e["rel"].startswith(".venv") or e["rel"].startswith("editables")) else os.path.normpath(os.path.join(outside, e["rel"]))
            defs = raw["definitions"].get(u["name"], [])
            a = vh.call(op="goto", db=db, path=probe, line=u["line"] - 1, char=u["start_b"])
            t = a.get("target")
            ctx.judged()
            tier = e["tier"]
            if tier.startswith("explicit_"):
                # pulled in by an explicit import of a plugin entry module
                real = tier.split("_", 1)[1]
                if t is not None and t["file"] == where:
                    ctx.nontrivial(("b", "explicit_import_in_plugin", real, "visible"))
                    continue
                if real == "plugin" and t is None and ctx.known(KF_EXPLICIT_PLUGIN):
                    ctx.nontrivial(("b", "explicit_import_in_plugin", real, "kf"))
                    continue
                ctx.violation({"kind": "explicitly-imported-plugin-fixture", "name": u["name"], "tier": real},
                              {"target": t, "defs": defs}, files=files | {"OUT/" + k_: v for k_, v in ext_files.items()})
                continue
            if tier == "dontcare":
                continue
            if tier == "none":
                if t is not None:
                    ctx.violation({"kind": "fixture-of-unloaded-module-visible", "name": u["name"]}, {"target": t}, files=files)
                continue
            d = next((x for x in defs if x["file"] == where), None)
            if d is None:
                ctx.violation({"kind": "plugin-fixture-not-discovered", "name": u["name"], "tier": tier, "where": e["rel"]},
                              {"defs": defs}, files=files | {"OUT/" + k_: v for k_, v in ext_files.items()})
                continue
            want_tp = tier == "third_party"
            if d["third_party"] != want_tp or (tier == "plugin" and not d["plugin"]):
                ctx.violation({"kind": "classification", "name": u["name"], "tier": tier},
                              {"third_party": d["third_party"], "plugin": d["plugin"], "where": e["rel"]},
                              files=files | {"OUT/" + k_: v for k_, v in ext_files.items()})
                continue
            if t is None or t["file"] != where:
                ctx.violation({"kind": "plugin-fixture-not-resolvable", "name": u["name"], "tier": tier}, {"target": t, "where": e["rel"]},
                              files=files | {"OUT/" + k_: v for k_, v in ext_files.items()})
                continue
            ctx.nontrivial(("b", tier, e["rel"].split("/")[-1].split(".")[0][:6], "egg" if any("egg-info" in f_ for f_ in files) else "dist"))
        vh.call(op="drop_db", db=db)
        if i < n_srv:
            server_symbols(ctx, scan_root, files, expect)
        ctx.sample({"expect": expect, "files": sorted(files)[:25]})
        ctx.count("venv_layouts")
        shutil.rmtree(base, ignore_errors=True)


def server_symbols(ctx, root, files, expect):
    srv = LSP(srv_bin(), root, locklog=os.path.join(ctx.scratch_root, "lock_srv.log"))
    try:
        srv.initialize()
        r = srv.workspace_symbol("")
        names = {s["name"] for s in (r.get("result") or [])}
        ctx.judged()
        tp = {n for n, e in expect.items() if e["tier"].endswith("third_party")}
        if names & tp:
            ctx.violation({"kind": "third-party-fixture-in-workspace-symbols", "names": sorted(names & tp)[:4]}, {}, files=files)
        for n, e in expect.items():
            if e["tier"].endswith("third_party") and e["rel"].startswith(".venv"):
                p = os.path.join(root, e["rel"])
                r = srv.document_symbol(p)
                ctx.judged()
                if r.get("result"):
                    ctx.violation({"kind": "third-party-fixture-in-document-symbols", "file": e["rel"]}, {"result": r["result"]}, files=files)
        # completion detail tags
        lines = files["test_probe.py"].split("\n")
        r = srv.completion(os.path.join(root, "test_probe.py"), 0, len(lines[0]) - 2)
        items = r.get("result") or []
        if isinstance(items, dict):
            items = items.get("items", [])
        for it in items:
            e = expect.get(it["label"])
            if not e or e["tier"] in ("none", "dontcare") or e["tier"].startswith("explicit_"):
                continue
            ctx.judged()
            want = "[third-party]" if e["tier"] == "third_party" else "[plugin]"
            if want not in (it.get("detail") or ""):
                ctx.violation({"kind": "completion-origin-tag", "name": it["label"], "want": want}, {"detail": it.get("detail")}, files=files)
            pri = (it.get("sortText") or "9")[0]
            if pri != ("3" if e["tier"] == "third_party" else "2"):
                ctx.violation({"kind": "completion-sort-group", "name": it["label"]}, {"sortText": it.get("sortText"), "tier": e["tier"]}, files=files)
    finally:
        srv.shutdown()


def run(ctx):
    quick = ctx.tier == "quick"
    ctx.rule = ("(A) import graphs of 3-8 fixture modules/packages with star/explicit/pytest_plugins edges, relative levels and "
                "absolute dotted paths, cycles and diamonds, entered from conftests and a test module; (B) virtualenv layouts "
                "(dist-info/egg-info, module/package/submodule/attr entry points, helper modules pulled in by plugins, editable "
                "installs inside/outside the workspace with .pth naming variants, built-ins); distinct = (part, provider kind / "
                "tier, layout features)")
    vh = VH(vh_bin(), locklog=os.path.join(ctx.scratch_root, "lock_vh.log"))
    try:
        pinned(ctx, vh)
        if os.environ.get("VERIF_ONLY_PINNED"):
            return
        part_a(ctx, vh, 60 if quick else 3000)
        part_b(ctx, vh, 40 if quick else 2000, 5 if quick else 100)
    finally:
        vh.close()


def pinned(ctx, vh):
    import random
    from ..witness import WITNESS, ws_from_witness
    for kf_id in (KF_TESTMOD, KF_IMPORT_FIRST):
        w = WITNESS[kf_id]
        ws = ws_from_witness(ctx, w)
        # every directory of the witness gets the probes the judge expects
        model = ws.model()
        db = vh.new_db()
        vh.call(op="batch", cmds=[{"op": "analyze_fresh", "db": db, "path": ws.abs(r), "text": ws.files[r]} for r in w["order"]])
        ws.spec = {"mods": [], "entries": [], "names": w["spec"]["names"], "depth": 1}
        judge_import_ws(ctx, vh, db, ws, model, ws.root)
        vh.call(op="drop_db", db=db)
        shutil.rmtree(ws.root, ignore_errors=True)
    # regression witness (defect repaired by a fix: commit): memoised partial import walks in an import cycle
    import json as _json
    reg = _json.load(open(os.path.join(os.path.dirname(os.path.dirname(__file__)), "regress_c14_cycle.json")))
    ws = ws_from_witness(ctx, {"files": reg["files"], "spec": {}}, name="regress")
    model = ws.model()
    db = vh.new_db()
    vh.call(op="scan", db=db, root=ws.root)
    ws.spec = {"mods": [], "entries": [], "names": [], "depth": 3, "regression": "import-cycle-memo"}
    judge_import_ws(ctx, vh, db, ws, model, ws.root)
    vh.call(op="drop_db", db=db)
    shutil.rmtree(ws.root, ignore_errors=True)
    # the explicit-import-in-plugin finding: first layout of a fixed seed sequence that contains the construct
    for seed in range(400):
        rng = random.Random(seed)
        base = ctx.scratch("pv")
        root = os.path.realpath(os.path.join(base, "ws")); outside = os.path.realpath(os.path.join(base, "outside"))
        os.makedirs(root, exist_ok=True); os.makedirs(outside, exist_ok=True)
        files, ext_files, expect = gen_venv_layout(root, outside, rng)
        if any(e["tier"] == "explicit_plugin" for e in expect.values()):
            shutil.rmtree(base, ignore_errors=True)
            saved = ctx.rng
            ctx.rng = random.Random(seed)
            try:
                part_b(ctx, vh, 1, 0)
            finally:
                ctx.rng = saved
            break
        shutil.rmtree(base, ignore_errors=True)
