"""Shared run context: seed, tier, scratch dirs, verdicts, evidence, replays, known findings."""
import hashlib, json, os, random, shutil, sys, tempfile, time

VERIF = os.path.dirname(os.path.dirname(os.path.abspath(__file__)))
KF_FILE = os.path.join(VERIF, "known_findings.json")


class Inconclusive(Exception):
    pass


def load_known():
    try:
        return json.load(open(KF_FILE))
    except FileNotFoundError:
        return {"known": [], "fixed": []}


class Ctx:
    def __init__(self, prop, tier, seed):
        self.prop = prop
        self.tier = tier
        self.seed = seed
        self.rng = random.Random((seed * 1000003) ^ hash_str(prop))
        self.t0 = time.time()
        self.violations = []          # (key, replay_path)
        self._viol_keys = set()
        self.kf_seen = {}             # kf id -> count
        self.kf_defs = {k["id"]: k for k in load_known().get("known", []) if k.get("property") == prop}
        self.notes = []
        self.counters = {}
        self.samples = []
        self.distinct = set()
        self.evaluations = 0
        self.scratch_root = tempfile.mkdtemp(prefix=f"vf{prop.lower()}_", dir=os.environ.get("VERIF_SCRATCH", "/tmp"))
        self.extra = {}
        self.assumptions = []
        self.rule = ""

    # ---- bookkeeping --------------------------------------------------------------
    def count(self, key, n=1):
        self.counters[key] = self.counters.get(key, 0) + n

    def judged(self, n=1):
        self.evaluations += n

    def nontrivial(self, feature):
        self.distinct.add(feature if isinstance(feature, (str, int, tuple)) else json.dumps(feature, sort_keys=True))

    def sample(self, obj, limit=5):
        if len(self.samples) < limit:
            self.samples.append(obj)

    def scratch(self, name=None):
        d = tempfile.mkdtemp(prefix=(name or "w") + "_", dir=self.scratch_root)
        return os.path.realpath(d)

    def elapsed(self):
        return time.time() - self.t0

    # ---- verdicts -----------------------------------------------------------------
    def known(self, kf_id, detail=None):
        """Attribute a deviation to a listed known finding (must be in known_findings.json)."""
        if kf_id not in self.kf_defs:
            # not listed: it is a violation, not a known finding
            return False
        self.kf_seen[kf_id] = self.kf_seen.get(kf_id, 0) + 1
        return True

    def violation(self, key, detail, files=None):
        """Record a violation; writes a replay directory; deduplicates on key."""
        h = hashlib.sha1(json.dumps(key, sort_keys=True, default=str).encode()).hexdigest()[:12]
        if h in self._viol_keys:
            self.count("duplicate_violations")
            return
        self._viol_keys.add(h)
        d = os.path.join(VERIF, "replays", self.prop, h)
        os.makedirs(d, exist_ok=True)
        with open(os.path.join(d, "violation.json"), "w") as f:
            json.dump({"property": self.prop, "key": key, "detail": detail, "seed": self.seed, "tier": self.tier},
                      f, indent=1, default=str)
        if files:
            for rel, content in files.items():
                p = os.path.join(d, "files", rel)
                os.makedirs(os.path.dirname(p), exist_ok=True)
                mode = "wb" if isinstance(content, bytes) else "w"
                with open(p, mode) as f:
                    f.write(content)
        self.violations.append((key, d))
        if len(self.violations) <= 25:
            print(f"VIOLATION property={self.prop} replay={d}", flush=True)
            brief = json.dumps({"key": key, "detail": detail}, default=str)
            print(f"  {brief[:700]}", flush=True)
        elif len(self.violations) == 26:
            print("  (further violations are recorded under replays/ but not printed)", flush=True)

    # ---- finish -------------------------------------------------------------------
    def finish(self, level="exploration"):
        for kf_id, cnt in sorted(self.kf_seen.items()):
            what = self.kf_defs[kf_id].get("what", "")
            print(f"KNOWN-FINDING: property={self.prop} {kf_id}: {what} (seen {cnt}x)", flush=True)
        cov = {
            "evaluations": int(self.evaluations),
            "distinct_nontrivial": len(self.distinct),
            "rule": self.rule,
            "samples": self.samples[:5] or [{"note": "no individual case was sampled in this run", "counters": dict(self.counters)}],
            "known_findings_seen": self.kf_seen,
            "counters": self.counters,
        }
        cov.update(self.extra)
        ev = {
            "property_id": self.prop,
            "tier": self.tier,
            "seed": int(self.seed),
            "level": level,
            "coverage": cov,
            "assumptions": self.assumptions,
            "wall_s": round(self.elapsed(), 2),
            "violations": len(self.violations),
        }
        ev_dir = os.environ.get("VERIF_EVIDENCE_DIR") or os.path.join(VERIF, "evidence")
        os.makedirs(ev_dir, exist_ok=True)
        ev_path = os.path.join(ev_dir, f"{self.prop}.json")
        if os.environ.get("VERIF_ONLY_PINNED") or getattr(self, "replay", None):
            # partial runs (witnesses only / replay of one recorded run) never overwrite the evidence of a full run
            ev_path = os.path.join(os.environ.get("VERIF_SCRATCH", "/tmp"), f"evidence_partial_{self.prop}.json")
        with open(ev_path, "w") as f:
            json.dump(ev, f, indent=1, default=str)
        if self.tier == "thorough" and ev_path.startswith(os.path.join(VERIF, "evidence")):
            # the next quick run rewrites evidence/<id>.json: keep the deeper run's record next to it
            os.makedirs(os.path.join(VERIF, "evidence", "thorough"), exist_ok=True)
            shutil.copy(ev_path, os.path.join(VERIF, "evidence", "thorough", f"{self.prop}.json"))
        shutil.rmtree(self.scratch_root, ignore_errors=True)
        print(f"[{self.prop}] tier={self.tier} seed={self.seed} evaluations={self.evaluations} "
              f"distinct_nontrivial={len(self.distinct)} violations={len(self.violations)} "
              f"known={self.kf_seen} counters={self.counters} wall={ev['wall_s']}s", flush=True)
        if self.violations:
            return 1
        if self.evaluations == 0 or len(self.distinct) < 2:
            print(f"INCONCLUSIVE property={self.prop}: the monitors observed too little "
                  f"(evaluations={self.evaluations}, distinct={len(self.distinct)})", flush=True)
            return 2
        return 0


def hash_str(s):
    return int(hashlib.sha1(s.encode()).hexdigest()[:12], 16)


def write_tree(root, files):
    """files: {relpath: str|bytes}"""
    for rel, content in files.items():
        p = os.path.join(root, rel)
        os.makedirs(os.path.dirname(p), exist_ok=True)
        if isinstance(content, bytes):
            with open(p, "wb") as f:
                f.write(content)
        else:
            with open(p, "w", encoding="utf-8", newline="") as f:
                f.write(content)
