"""Reference model, written from the property statements / README / pytest semantics,
NOT from the implementation.

* FileModel: what a Python source declares (fixtures, usages) according to CPython's own
  parser (ast + tokenize), with token spans in UTF-8 bytes and UTF-16 code units.
* WorkspaceModel: pytest's visibility / shadowing lookup over a set of files.
"""
import ast, inspect, io, os, tokenize

SCOPES = ["function", "class", "module", "package", "session"]


# --------------------------------------------------------------------------------------------
# helpers
# --------------------------------------------------------------------------------------------

def utf16_len(s):
    return len(s.encode("utf-16-le")) // 2


class LineTable:
    def __init__(self, text):
        self.text = text
        # CPython's ast line numbering: universal newlines (\n, \r\n, \r)
        self.lines = text.splitlines(keepends=True)
        self.blines = [l.encode("utf-8") for l in self.lines]

    def line_text(self, lineno):
        """1-based; without line terminator"""
        if 1 <= lineno <= len(self.lines):
            return self.lines[lineno - 1].rstrip("\r\n")
        return ""

    def byte_to_utf16(self, lineno, bcol):
        if not (1 <= lineno <= len(self.blines)):
            return bcol
        b = self.blines[lineno - 1][:bcol]
        return utf16_len(b.decode("utf-8", "replace"))

    def byte_to_char(self, lineno, bcol):
        if not (1 <= lineno <= len(self.blines)):
            return bcol
        return len(self.blines[lineno - 1][:bcol].decode("utf-8", "replace"))

    def n_lines(self):
        return len(self.lines)


def is_fixture_decorator(node):
    """pytest.fixture / fixture / pytest_asyncio.fixture, bare or called"""
    if isinstance(node, ast.Call):
        return is_fixture_decorator(node.func)
    if isinstance(node, ast.Name):
        return node.id == "fixture"
    if isinstance(node, ast.Attribute):
        return (isinstance(node.value, ast.Name) and node.value.id in ("pytest", "pytest_asyncio")
                and node.attr == "fixture")
    return False


def is_mark(node, marker):
    """pytest.mark.<marker> / mark.<marker>, bare or called"""
    if isinstance(node, ast.Call):
        return is_mark(node.func, marker)
    if isinstance(node, ast.Attribute) and node.attr == marker:
        v = node.value
        if isinstance(v, ast.Attribute) and v.attr == "mark":
            return isinstance(v.value, ast.Name) and v.value.id == "pytest"
        if isinstance(v, ast.Name):
            return v.id == "mark"
    return False


def kw(call, name):
    for k in call.keywords:
        if k.arg == name:
            return k.value
    return None


def render_type(node):
    """Text of an annotation for the forms the documented grammar covers; None = outside the judged grammar."""
    if isinstance(node, ast.Name):
        return node.id
    if isinstance(node, ast.Attribute):
        v = render_type(node.value)
        return None if v is None else v + "." + node.attr
    if isinstance(node, ast.Subscript):
        a, b = render_type(node.value), render_type(node.slice)
        return None if a is None or b is None else a + "[" + b + "]"
    if isinstance(node, ast.Tuple):
        parts = [render_type(e) for e in node.elts]
        return None if any(p is None for p in parts) else ", ".join(parts)
    if isinstance(node, ast.Constant):
        if isinstance(node.value, str):
            return node.value
        if node.value is None:
            return "None"
        return None
    if isinstance(node, ast.BinOp) and isinstance(node.op, ast.BitOr):
        l, r = render_type(node.left), render_type(node.right)
        if l is None or r is None:
            return None
        return l + " | " + r
    return None


def norm_type(s):
    if s is None:
        return None
    return "".join(s.split()).replace('"', "").replace("'", "")


def own_yields(body):
    """(lineno) of every `yield` / `yield from` that is an expression statement inside the
    function's own blocks (not nested defs/lambdas/classes), in source order."""
    out = []

    def walk(stmts):
        for s in stmts:
            if isinstance(s, ast.Expr) and isinstance(s.value, (ast.Yield, ast.YieldFrom)):
                out.append(s.value.lineno)
            elif isinstance(s, (ast.If,)):
                walk(s.body); walk(s.orelse)
            elif isinstance(s, (ast.For, ast.AsyncFor, ast.While)):
                walk(s.body); walk(s.orelse)
            elif isinstance(s, (ast.With, ast.AsyncWith)):
                walk(s.body)
            elif isinstance(s, ast.Try) or s.__class__.__name__ == "TryStar":
                walk(s.body)
                for h in s.handlers:
                    walk(h.body)
                walk(s.orelse); walk(s.finalbody)
    walk(body)
    return out


def any_yield(func):
    """does the function contain any yield at all in its own scope (incl. assignment values)"""
    class V(ast.NodeVisitor):
        found = False
        def visit_Yield(self, n): self.found = True
        def visit_YieldFrom(self, n): self.found = True
        def visit_FunctionDef(self, n): pass
        def visit_AsyncFunctionDef(self, n): pass
        def visit_Lambda(self, n): pass
        def visit_ClassDef(self, n): pass
    v = V()
    for s in func.body:
        v.visit(s)
    return v.found


# --------------------------------------------------------------------------------------------
# string literal token geometry
# --------------------------------------------------------------------------------------------

class StringTokens:
    """maps (lineno, byte col) of a STRING token start to (prefix_len, quote_len, end) in bytes"""

    def __init__(self, text):
        self.by_start = {}
        try:
            toks = list(tokenize.generate_tokens(io.StringIO(text).readline))
        except Exception:
            toks = []
        lines = text.splitlines(keepends=True)
        for t in toks:
            if t.type == tokenize.STRING:
                (sl, sc), (el, ec) = t.start, t.end
                s = t.string
                i = 0
                while i < len(s) and s[i] not in "'\"":
                    i += 1
                q = 3 if s[i:i + 3] in ('"""', "'''") else 1
                line = lines[sl - 1] if sl - 1 < len(lines) else ""
                bstart = len(line[:sc].encode("utf-8"))
                eline = lines[el - 1] if el - 1 < len(lines) else ""
                bend = len(eline[:ec].encode("utf-8"))
                self.by_start[(sl, bstart)] = {"prefix": i, "quote": q, "end_line": el, "end_b": bend,
                                               "single_token": True}


# --------------------------------------------------------------------------------------------
# FileModel
# --------------------------------------------------------------------------------------------

class FileModel:
    def __init__(self, text, path="<mem>"):
        self.text = text
        self.path = path
        self.ok = True
        self.defs = []       # dicts
        self.usages = []     # dicts
        self.imports = []    # ('star'|'names'|'plugins', module, [names], lineno)
        self.module_names = set()
        self.functions = []  # every function (test/fixture/other) with body info
        try:
            self.tree = ast.parse(text)
        except (SyntaxError, ValueError, RecursionError, MemoryError):
            self.ok = False
            return
        self.lt = LineTable(text)
        self.strtok = StringTokens(text)
        try:
            self._walk(self.tree.body, cls=None, depth=0)
            self._imports(self.tree.body)
        except RecursionError:
            self.ok = False

    # ---- imports -------------------------------------------------------------------
    def _imports(self, body):
        plugins = None
        for s in body:
            if isinstance(s, ast.ImportFrom):
                mod = "." * (s.level or 0) + (s.module or "")
                if any(a.name == "*" for a in s.names):
                    self.imports.append(("star", mod, [], s.lineno))
                else:
                    self.imports.append(("names", mod, [(a.name, a.asname) for a in s.names], s.lineno))
            tgt = None
            val = None
            if isinstance(s, ast.Assign) and any(isinstance(t, ast.Name) and t.id == "pytest_plugins" for t in s.targets):
                val = s.value
                tgt = True
            if isinstance(s, ast.AnnAssign) and isinstance(s.target, ast.Name) and s.target.id == "pytest_plugins" and s.value is not None:
                val = s.value
                tgt = True
            if tgt:
                mods = []
                if isinstance(val, ast.Constant) and isinstance(val.value, str):
                    mods = [val.value]
                elif isinstance(val, (ast.List, ast.Tuple)):
                    mods = [e.value for e in val.elts if isinstance(e, ast.Constant) and isinstance(e.value, str)]
                plugins = (mods, s.lineno)   # last assignment wins
        if plugins:
            for m in plugins[0]:
                self.imports.append(("plugins", m, [], plugins[1]))

    # ---- spans ---------------------------------------------------------------------
    def _span(self, lineno, bstart, bend):
        return {"line": lineno, "start_b": bstart, "end_b": bend,
                "start_u16": self.lt.byte_to_utf16(lineno, bstart),
                "end_u16": self.lt.byte_to_utf16(lineno, bend)}

    def _str_usage(self, node, name, kind, owner, exact=True, sub=None):
        """usage denoted by a string literal: span = the string's content"""
        info = self.strtok.by_start.get((node.lineno, node.col_offset))
        simple = True
        if info is None:
            prefix, quote = 0, 1
            simple = False
        else:
            prefix, quote = info["prefix"], info["quote"]
            # implicit concatenation: the Constant spans more than one token
            if (info["end_line"], info["end_b"]) != (node.end_lineno, node.end_col_offset):
                simple = False
        multiline = node.end_lineno != node.lineno
        sp = self._span(node.lineno, node.col_offset + prefix + quote,
                        node.end_col_offset - quote if not multiline else node.col_offset + prefix + quote + len(name.encode()))
        if sub is not None and not multiline:
            b0 = node.col_offset + prefix + quote
            sp = self._span(node.lineno, b0 + sub[0], b0 + sub[1])
        u = {"name": name, "kind": kind, "owner": owner, **sp,
             "plain_string": simple and prefix == 0 and quote == 1 and not multiline,
             "exact_span": exact, "node_start_b": node.col_offset, "node_end_b": node.end_col_offset,
             "node_end_line": node.end_lineno, "string": True}
        self.usages.append(u)

    # ---- walk ----------------------------------------------------------------------
    def _marks_on(self, decorators, owner):
        for d in decorators:
            if isinstance(d, ast.Call) and is_mark(d.func, "usefixtures"):
                for a in d.args:
                    if isinstance(a, ast.Constant) and isinstance(a.value, str):
                        self._str_usage(a, a.value, "usefixtures", owner)

    def _indirect_on(self, decorators, owner):
        for d in decorators:
            if isinstance(d, ast.Call) and is_mark(d.func, "parametrize"):
                ind = kw(d, "indirect")
                if ind is None or not d.args:
                    continue
                first = d.args[0]
                if not (isinstance(first, ast.Constant) and isinstance(first.value, str)):
                    continue
                names = [x.strip() for x in first.value.split(",")]
                if isinstance(ind, ast.Constant) and ind.value is True:
                    pos = 0
                    for raw_part in first.value.split(","):
                        nm = raw_part.strip()
                        lead = len(raw_part) - len(raw_part.lstrip())
                        # the part of the string that denotes this name (exact only for one-line, escape-free literals)
                        self._str_usage(first, nm, "indirect", owner, exact=(len(names) == 1),
                                        sub=(pos + lead, pos + lead + len(nm)) if len(names) > 1 else None)
                        pos += len(raw_part) + 1
                elif isinstance(ind, ast.List):
                    for e in ind.elts:
                        if isinstance(e, ast.Constant) and isinstance(e.value, str) and e.value in names:
                            self._str_usage(e, e.value, "indirect", owner)

    def _pytestmark(self, value, owner):
        def rec(v):
            if isinstance(v, ast.Call):
                if is_mark(v.func, "usefixtures"):
                    for a in v.args:
                        if isinstance(a, ast.Constant) and isinstance(a.value, str):
                            self._str_usage(a, a.value, "pytestmark", owner)
            elif isinstance(v, (ast.List, ast.Tuple)):
                for e in v.elts:
                    rec(e)
        rec(value)

    def _walk(self, body, cls, depth):
        for s in body:
            if isinstance(s, ast.Assign):
                self._assign_fixture(s, cls)
                if any(isinstance(t, ast.Name) and t.id == "pytestmark" for t in s.targets):
                    self._pytestmark(s.value, cls or "<module>")
            elif isinstance(s, ast.AnnAssign):
                if isinstance(s.target, ast.Name) and s.target.id == "pytestmark" and s.value is not None:
                    self._pytestmark(s.value, cls or "<module>")
            elif isinstance(s, ast.ClassDef):
                self._marks_on(s.decorator_list, s.name)
                self._walk(s.body, cls=s.name, depth=depth + 1)
            elif isinstance(s, (ast.FunctionDef, ast.AsyncFunctionDef)):
                self._function(s, cls)
            if depth == 0:
                self._module_name(s)

    def _module_name(self, s):
        if isinstance(s, ast.Import):
            for a in s.names:
                self.module_names.add(a.asname or a.name)
        elif isinstance(s, ast.ImportFrom):
            for a in s.names:
                self.module_names.add(a.asname or a.name)
        elif isinstance(s, (ast.FunctionDef, ast.AsyncFunctionDef)):
            if not any(is_fixture_decorator(d) for d in s.decorator_list):
                self.module_names.add(s.name)
        elif isinstance(s, ast.ClassDef):
            self.module_names.add(s.name)
        elif isinstance(s, ast.Assign):
            for t in s.targets:
                for n in ast.walk(t):
                    if isinstance(n, ast.Name):
                        self.module_names.add(n.id)
        elif isinstance(s, ast.AnnAssign):
            if isinstance(s.target, ast.Name):
                self.module_names.add(s.target.id)

    def _assign_fixture(self, s, cls):
        v = s.value
        if isinstance(v, ast.Call) and isinstance(v.func, ast.Call) and is_fixture_decorator(v.func.func):
            for t in s.targets:
                if isinstance(t, ast.Name):
                    sp = self._span(t.lineno, t.col_offset, t.end_col_offset)
                    self.defs.append({"name": t.id, "func": None, "line": s.lineno, "end_line": s.end_lineno,
                                      "name_span": sp, "scope": "function", "autouse": False, "deps": [],
                                      "is_generator": False, "yield_line": None, "return_type": None,
                                      "docstring": None, "cls": cls, "style": "assign", "async": False,
                                      "def_line": s.lineno})

    def _params(self, f):
        a = f.args
        return list(a.posonlyargs) + list(a.args) + list(a.kwonlyargs)

    def _function(self, f, cls):
        owner = f.name
        self._marks_on(f.decorator_list, owner)
        self._indirect_on(f.decorator_list, owner)
        deco = next((d for d in f.decorator_list if is_fixture_decorator(d)), None)
        params = self._params(f)
        defaults = {}
        a = f.args
        pos = list(a.posonlyargs) + list(a.args)
        for p, d in zip(pos[len(pos) - len(a.defaults):], a.defaults):
            defaults[p.arg] = True
        for p, d in zip(a.kwonlyargs, a.kw_defaults):
            if d is not None:
                defaults[p.arg] = True
        is_test = f.name.startswith("test_") and deco is None
        # 'def' keyword line (decorators come first in f.lineno? no: f.lineno is the def line in 3.8+)
        def_line = f.lineno
        # name token: find after 'def'
        line_b = self.lt.blines[def_line - 1] if def_line - 1 < len(self.lt.blines) else b""
        idx = line_b.find(b"def ", f.col_offset)
        name_b = f.name.encode("utf-8")
        nstart = line_b.find(name_b, idx + 4 if idx >= 0 else f.col_offset)
        name_span = self._span(def_line, nstart, nstart + len(name_b)) if nstart >= 0 else None
        first_line = f.decorator_list[0].lineno if f.decorator_list else f.lineno
        finfo = {"name": f.name, "cls": cls, "line": def_line, "first_line": first_line, "end_line": f.end_lineno,
                 "is_test": is_test, "is_fixture": deco is not None, "params": [p.arg for p in params],
                 "node": f, "body_first_line": f.body[0].lineno if f.body else def_line,
                 "async": isinstance(f, ast.AsyncFunctionDef)}
        self.functions.append(finfo)
        if deco is not None:
            name = f.name
            scope = "function"
            autouse = False
            scope_judged = True
            if isinstance(deco, ast.Call):
                nk = kw(deco, "name")
                if isinstance(nk, ast.Constant) and isinstance(nk.value, str):
                    name = nk.value
                sk = kw(deco, "scope")
                if sk is not None:
                    if isinstance(sk, ast.Constant) and isinstance(sk.value, str) and sk.value in SCOPES:
                        scope = sk.value
                    else:
                        scope_judged = False
                ak = kw(deco, "autouse")
                if isinstance(ak, ast.Constant) and ak.value is True:
                    autouse = True
            deps = [p.arg for p in params if p.arg not in ("self", "request")]
            ys = own_yields(f.body)
            is_gen = bool(ys)
            gen_judged = is_gen or not any_yield(f)
            rt = None
            rt_judged = True
            if f.returns is not None:
                r = f.returns
                if is_gen:
                    if isinstance(r, ast.Subscript):
                        sl = r.slice
                        r = sl.elts[0] if isinstance(sl, ast.Tuple) and sl.elts else sl
                rt = render_type(r)
                if rt is None:
                    rt_judged = False
            doc = None
            doc_raw = None
            if f.body and isinstance(f.body[0], ast.Expr) and isinstance(f.body[0].value, ast.Constant) \
                    and isinstance(f.body[0].value.value, str):
                doc = inspect.cleandoc(f.body[0].value.value)
                doc_raw = f.body[0].value.value
            d = {"name": name, "func": f.name, "line": def_line, "end_line": f.end_lineno, "name_span": name_span,
                 "scope": scope, "scope_judged": scope_judged, "autouse": autouse, "deps": deps,
                 "is_generator": is_gen, "gen_judged": gen_judged, "yield_line": ys[0] if ys else None,
                 "return_type": rt, "rt_judged": rt_judged, "docstring": doc, "doc_raw": doc_raw, "cls": cls, "style": "decorator",
                 "async": isinstance(f, ast.AsyncFunctionDef), "def_line": def_line, "first_line": first_line}
            self.defs.append(d)
            for p in params:
                if p.arg in ("self", "request"):
                    continue
                sp = self._span(p.lineno, p.col_offset, p.col_offset + len(p.arg.encode("utf-8")))
                self.usages.append({"name": p.arg, "kind": "fixture_param", "owner": f.name, **sp,
                                    "has_default": p.arg in defaults, "in_def": d, "exact_span": True,
                                    "annotated": p.annotation is not None})
        elif is_test:
            for p in params:
                if p.arg == "self":
                    continue
                sp = self._span(p.lineno, p.col_offset, p.col_offset + len(p.arg.encode("utf-8")))
                self.usages.append({"name": p.arg, "kind": "test_param", "owner": f.name, **sp,
                                    "has_default": p.arg in defaults, "in_def": None, "exact_span": True,
                                    "annotated": p.annotation is not None})

    # ---- convenience ---------------------------------------------------------------
    def defs_named(self, name):
        return [d for d in self.defs if d["name"] == name]


def clean_doc_lines(s):
    if s is None:
        return None
    return "\n".join(l.rstrip() for l in s.split("\n")).strip("\n")


# --------------------------------------------------------------------------------------------
# WorkspaceModel
# --------------------------------------------------------------------------------------------

class WorkspaceModel:
    """files: {abs path: text}.  tiers: {'plugin': set(abs paths), 'third_party': set(abs paths)}
    site_dirs: directories searched for absolute imports after the upward search."""

    def __init__(self, files, plugin_files=(), third_party_files=(), site_dirs=(), indexed=None):
        self.files = dict(files)
        self.models = {}
        for p, t in files.items():
            if p.endswith(".py"):
                self.models[p] = FileModel(t, p)
        self.plugin_files = set(plugin_files)
        self.third_party_files = set(third_party_files)
        self.site_dirs = list(site_dirs)
        self._imp_cache = {}

    # ---- module resolution ---------------------------------------------------------
    def _find_module(self, dotted, base):
        parts = dotted.split(".")
        cur = base
        for i, part in enumerate(parts):
            last = i == len(parts) - 1
            if last:
                f = os.path.join(cur, part + ".py")
                if f in self.files:
                    return f
                pk = os.path.join(cur, part, "__init__.py")
                if pk in self.files:
                    return pk
                return None
            cur = os.path.join(cur, part)
            if not any(p.startswith(cur + os.sep) for p in self.files):
                return None
        return None

    def resolve_module(self, mod, importing_file):
        base = os.path.dirname(importing_file)
        if mod.startswith("."):
            level = len(mod) - len(mod.lstrip("."))
            rest = mod.lstrip(".")
            cur = base
            for _ in range(level - 1):
                cur = os.path.dirname(cur)
            if not rest:
                f = os.path.join(cur, "__init__.py")
                return f if f in self.files else None
            return self._find_module(rest, cur)
        cur = base
        while True:
            f = self._find_module(mod, cur)
            if f:
                return f
            parent = os.path.dirname(cur)
            if parent == cur:
                break
            cur = parent
        for sd in self.site_dirs:
            f = self._find_module(mod, sd)
            if f:
                return f
        return None

    # ---- names a module provides (own fixtures + re-exports), with their origin ------
    def provides(self, path, _stack=None):
        """{name: (defining file, def dict)} for fixtures visible in module `path`'s namespace.
        Python semantics: later bindings win; own definitions bind at their position, imports at
        theirs; we approximate 'last binding wins' in statement order."""
        if path in self._imp_cache:
            return self._imp_cache[path]
        stack = _stack or []
        if path in stack:
            return None  # cycle cut (caller treats as unknown)
        m = self.models.get(path)
        out = {}
        if m is None or not m.ok:
            self._imp_cache[path] = out
            return out
        events = []  # (lineno, kind, payload)
        for d in m.defs:
            events.append((d["line"], "def", d))
        for imp in m.imports:
            events.append((imp[3], "imp", imp))
        events.sort(key=lambda e: e[0])
        cyclic = False
        for _, kind, payload in events:
            if kind == "def":
                out[payload["name"]] = (path, payload)
            else:
                ikind, mod, names, _ln = payload
                target = self.resolve_module(mod, path)
                if target is None:
                    continue
                sub = self.provides(target, stack + [path])
                if sub is None:
                    cyclic = True
                    continue
                if ikind in ("star", "plugins"):
                    for n, v in sub.items():
                        out[n] = v
                else:
                    for (n, asn) in names:
                        if n in sub and asn in (None, n):
                            out[n] = sub[n]
        if not cyclic and not stack:
            self._imp_cache[path] = out
        return out

    def imported_into(self, path):
        """fixtures a file makes available through its imports only (not its own defs)"""
        m = self.models.get(path)
        res = {}
        if m is None or not m.ok:
            return res
        for imp in sorted(m.imports, key=lambda i: i[3]):
            ikind, mod, names, _ln = imp
            target = self.resolve_module(mod, path)
            if target is None:
                continue
            sub = self.provides(target, [path]) or {}
            if ikind in ("star", "plugins"):
                res.update(sub)
            else:
                for (n, asn) in names:
                    if n in sub and asn in (None, n):
                        res[n] = sub[n]
        return res

    # ---- resolution ------------------------------------------------------------------
    def resolve(self, file, name, exclude=None):
        """returns ('file', path, def) | ('tier', tiername, [candidates]) | None
        exclude: (path, def_line) of the definition that must be skipped"""
        def ok(p, d):
            return not (exclude and exclude == (p, d["line"]))
        m = self.models.get(file)
        if m is not None and m.ok:
            own = [d for d in m.defs_named(name) if ok(file, d)]
            if own:
                return ("def", file, max(own, key=lambda d: d["line"]), "same_file")
        cur = os.path.dirname(file)
        while True:
            cf = os.path.join(cur, "conftest.py")
            if cf in self.models and cf != file:
                cm = self.models[cf]
                if cm.ok:
                    own = [d for d in cm.defs_named(name) if ok(cf, d)]
                    if own:
                        return ("def", cf, max(own, key=lambda d: d["line"]), "conftest")
                    imp = self.imported_into(cf)
                    if name in imp and ok(imp[name][0], imp[name][1]):
                        return ("def", imp[name][0], imp[name][1], "conftest_import")
            elif cf == file:
                # a conftest resolving a name for itself: its own imports count too
                imp = self.imported_into(cf)
                if name in imp and ok(imp[name][0], imp[name][1]):
                    return ("def", imp[name][0], imp[name][1], "conftest_import")
            parent = os.path.dirname(cur)
            if parent == cur:
                break
            cur = parent
        cands = []
        for p in sorted(self.plugin_files - self.third_party_files):
            pm = self.models.get(p)
            if pm and pm.ok:
                cands += [(p, d) for d in pm.defs_named(name) if ok(p, d)]
        if cands:
            return ("tier", "plugin", cands)
        cands = []
        for p in sorted(self.third_party_files):
            pm = self.models.get(p)
            if pm and pm.ok:
                cands += [(p, d) for d in pm.defs_named(name) if ok(p, d)]
        if cands:
            return ("tier", "third_party", cands)
        return None

    def resolve_usage(self, file, usage):
        ex = None
        d = usage.get("in_def")
        if d is not None and d["name"] == usage["name"]:
            ex = (file, d["line"])
        return self.resolve(file, usage["name"], ex), ex

    def visible_names(self, file):
        """{name: resolution} for every fixture name that resolves from `file`"""
        names = set()
        for p, m in self.models.items():
            if m.ok:
                for d in m.defs:
                    names.add(d["name"])
        out = {}
        for n in names:
            r = self.resolve(file, n)
            if r is not None:
                out[n] = r
        return out
