"""Client for the vh harness (JSON lines over stdio)."""
import json, os, select, subprocess, time

MAP_NAMES = ["definitions", "file_definitions", "usages", "usage_by_fixture", "file_cache",
             "undeclared_fixtures", "imports", "canonical_path_cache", "line_index_cache",
             "ast_cache", "cycle_cache", "available_fixtures_cache", "imported_fixtures_cache",
             "plugin_fixture_files", "uri_cache"]


class VHDied(Exception):
    def __init__(self, msg, returncode=None, stderr=""):
        super().__init__(msg)
        self.returncode = returncode
        self.stderr = stderr


class VH:
    def __init__(self, binary, env=None, locklog=None, stack_mb=None, wrapper=None):
        e = dict(os.environ)
        e.setdefault("RUST_BACKTRACE", "0")
        if env:
            e.update(env)
        if locklog:
            e["VERIF_LOCKLOG"] = locklog
        if stack_mb:
            e["VH_STACK_MB"] = str(stack_mb)
        cmd = (wrapper or []) + [binary]
        self.errf = open(os.path.join(os.environ.get("VERIF_SCRATCH", "/tmp"), f"vh_err_{os.getpid()}_{id(self)}.log"), "w+")
        self.p = subprocess.Popen(cmd, stdin=subprocess.PIPE, stdout=subprocess.PIPE, stderr=self.errf, env=e)
        self.ncmd = 0

    def stderr_text(self):
        try:
            self.errf.flush()
            self.errf.seek(0)
            return self.errf.read()
        except Exception:
            return ""

    def call(self, timeout=120, **cmd):
        self.ncmd += 1
        try:
            self.p.stdin.write((json.dumps(cmd) + "\n").encode())
            self.p.stdin.flush()
        except (BrokenPipeError, OSError):
            rc = self.p.poll()
            raise VHDied("vh stdin closed", rc, self.stderr_text())
        deadline = time.time() + timeout
        fd = self.p.stdout.fileno()
        buf = getattr(self, "_buf", b"")
        while b"\n" not in buf:
            left = deadline - time.time()
            if left <= 0:
                self._buf = buf
                raise TimeoutError(f"vh did not answer {cmd.get('op')} within {timeout}s")
            r, _, _ = select.select([fd], [], [], min(left, 1.0))
            if r:
                chunk = os.read(fd, 1 << 20)
                if not chunk:
                    rc = self.p.wait()
                    raise VHDied(f"vh exited (status {rc}) while answering {cmd.get('op')}", rc, self.stderr_text())
                buf += chunk
        line, _, rest = buf.partition(b"\n")
        self._buf = rest
        return json.loads(line)

    def new_db(self):
        return self.call(op="new_db")["db"]

    def close(self):
        try:
            self.p.stdin.close()
        except Exception:
            pass
        try:
            self.p.wait(timeout=10)
        except Exception:
            self.p.kill()
        rc = self.p.returncode
        err = self.stderr_text()
        try:
            name = self.errf.name
            self.errf.close()
            os.unlink(name)
        except Exception:
            pass
        return rc, err

    def kill(self):
        try:
            self.p.kill()
        except Exception:
            pass
        self.close()


def strip_root(obj, root):
    """replace absolute root prefix in every string of a JSON-like structure"""
    pre = root.rstrip("/") + "/"
    if isinstance(obj, str):
        if obj.startswith(pre):
            return "<R>/" + obj[len(pre):]
        if obj == root:
            return "<R>"
        return obj
    if isinstance(obj, list):
        return [strip_root(x, root) for x in obj]
    if isinstance(obj, dict):
        return {strip_root(k, root): strip_root(v, root) for k, v in obj.items()}
    return obj
