"""Offline checker over the lock logs written by the instrumented DashMap."""
import json, os, re

from .vh import MAP_NAMES


def short(label):
    m = re.match(r"(?:g\d+)?#(\d+):", label)
    if m:
        i = int(m.group(1))
        if i < len(MAP_NAMES) and "FixtureDefinition" in label and i == 0:
            return "definitions"
        return MAP_NAMES[i] if i < len(MAP_NAMES) else label
    return label


def classify(label):
    """logical map name from the type: robust when ordinals shift (server process has extra maps)"""
    t = label.split(":", 1)[1] if ":" in label else label
    table = [
        ("Vec<pytest_language_server::fixtures::types::FixtureDefinition>)", "definitions"),
        ("Vec<(std::path::PathBuf, pytest_language_server::fixtures::types::FixtureUsage)>", "usage_by_fixture"),
        ("Vec<pytest_language_server::fixtures::types::FixtureUsage>", "usages"),
        ("Vec<pytest_language_server::fixtures::types::UndeclaredFixture>", "undeclared_fixtures"),
        ("Arc<alloc::string::String>", "file_cache"),
        ("(std::path::PathBuf, std::path::PathBuf)", "canonical_path_cache"),
        ("rustpython", "ast_cache"),
        ("Arc<alloc::vec::Vec<usize>>", "line_index_cache"),
        ("FixtureCycle", "cycle_cache"),
        ("Arc<alloc::vec::Vec<pytest_language_server::fixtures::types::FixtureDefinition>>", "available_fixtures_cache"),
        ("Arc<std::collections::hash::set::HashSet<alloc::string::String>>", "imported_fixtures_cache"),
        ("(std::path::PathBuf, ())", "plugin_fixture_files"),
        ("Uri", "uri_cache"),
    ]
    t2 = t.replace("fixtures::types::", "fixtures::types::")
    for needle, name in table:
        if needle in t2:
            return name
    if "HashSet<alloc::string::String>" in t2:
        m = re.match(r"(?:g\d+)?#(\d+):", label)
        if m and int(m.group(1)) % 15 == 6:
            return "imports"
        return "file_definitions|imports"
    return "other:" + t2[:60]


class LockFacts:
    def __init__(self):
        self.conflicts = []
        self.edges = {}       # (from, fmode, to, tmode) -> bt
        self.rr = set()
        self.aborts = []
        self.sched_deadlocks = []
        self.stats = []

    def load(self, path):
        if not os.path.exists(path):
            return
        for line in open(path, errors="replace"):
            line = line.strip()
            if not line:
                continue
            try:
                e = json.loads(line)
            except Exception:
                continue
            ev = e.get("ev")
            if ev == "conflict":
                self.conflicts.append(e)
            elif ev == "edge":
                key = (classify(e["from"]), e["from_mode"], classify(e["to"]), e["to_mode"])
                self.edges.setdefault(key, e.get("bt", ""))
            elif ev == "rr":
                self.rr.add(classify(e["map"]))
            elif ev == "abort":
                self.aborts.append(e)
            elif ev == "sched_deadlock":
                self.sched_deadlocks.append(e)
            elif ev == "stats":
                self.stats.append(e)

    def conflicting_cycles(self):
        """cycles in the lock-order graph whose edges can block each other.
        Edge (A,ma)->(B,mb): a thread held A in mode ma while acquiring B in mode mb.
        A cycle A->B->...->A is dangerous if for every node X on it, the mode in which X is *held* on
        its outgoing edge conflicts with the mode in which X is *requested* on its incoming edge
        (at least one of the two is W)."""
        nodes = {}
        for (a, ma, b, mb) in self.edges:
            nodes.setdefault(a, []).append((ma, b, mb))
        out = []
        # small graphs: DFS for simple cycles up to length 4
        def dfs(start, cur, held_mode_at_start, path):
            for (ma, b, mb) in nodes.get(cur, []):
                # path entries: (node, held_mode_on_outgoing, requested_mode_on_incoming)
                if b == start and len(path) >= 1:
                    cyc = path + [(cur, ma, path[-1][3] if path else None)]
                    # evaluate conflicts
                    # build list of (node, held_out, req_in)
                    seq = []
                    full = path + [(cur, ma, None, mb)]
                    # full entries: (node, held_out_mode, _, acquired_next_mode)
                    k = len(full)
                    ok = True
                    for i in range(k):
                        node, held_out, _, _acq = full[i]
                        req_in = full[i - 1][3]
                        if not (held_out == "W" or req_in == "W"):
                            ok = False
                            break
                    if ok:
                        out.append([(n, h) for (n, h, _, _) in full])
                elif len(path) < 3 and b not in [p[0] for p in path] and b != cur:
                    dfs(start, b, held_mode_at_start, path + [(cur, ma, None, mb)])
        for s in list(nodes):
            dfs(s, s, None, [])
        # dedupe by node set
        seen, res = set(), []
        for c in out:
            k = tuple(sorted(n for n, _ in c))
            if k not in seen:
                seen.add(k)
                res.append(c)
        return res
