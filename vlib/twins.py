"""Twin-execution helpers: snapshot normalisation and comparison."""
import json


def canon(o):
    return json.dumps(o, sort_keys=True)


def raw_multiset(raw):
    """order-insensitive projection of the raw maps"""
    out = {}
    out["definitions"] = {n: sorted(canon(d) for d in v) for n, v in raw["definitions"].items()}
    out["file_definitions"] = raw["file_definitions"]
    out["usages"] = {f: sorted(canon(u) for u in v) for f, v in raw["usages"].items() if v}
    out["usage_by_fixture"] = {n: sorted(canon(u) for u in v) for n, v in raw["usage_by_fixture"].items()}
    out["imports"] = raw["imports"]
    out["file_cache"] = raw["file_cache"]
    out["plugin_files"] = raw["plugin_files"]
    return out


def raw_ordered(raw):
    r = dict(raw)
    r.pop("version", None)
    r.pop("undeclared", None)
    # empty usage vectors are not observable
    r["usages"] = {f: v for f, v in raw["usages"].items() if v}
    return r


def diff(a, b, path="", out=None, limit=12):
    """list of (path, a, b) differences between two JSON-like structures"""
    if out is None:
        out = []
    if len(out) >= limit:
        return out
    if type(a) != type(b):
        out.append((path, a, b))
    elif isinstance(a, dict):
        for k in sorted(set(a) | set(b)):
            if k not in a:
                out.append((f"{path}/{k}", "<absent>", b[k]))
            elif k not in b:
                out.append((f"{path}/{k}", a[k], "<absent>"))
            else:
                diff(a[k], b[k], f"{path}/{k}", out, limit)
            if len(out) >= limit:
                break
    elif isinstance(a, list):
        if len(a) != len(b):
            out.append((path, a, b))
        else:
            for i, (x, y) in enumerate(zip(a, b)):
                diff(x, y, f"{path}[{i}]", out, limit)
                if len(out) >= limit:
                    break
    elif a != b:
        out.append((path, a, b))
    return out


def brief(d, n=300):
    s = json.dumps(d, default=str)
    return s if len(s) <= n else s[:n] + "…"


def norm_cycle_path(path):
    """rotation-normalised closed path: ['b','c','a','b'] -> ('a','b','c')"""
    core = list(path[:-1]) if len(path) > 1 and path[0] == path[-1] else list(path)
    if not core:
        return tuple()
    i = core.index(min(core))
    return tuple(core[i:] + core[:i])


def norm_queries(q, keep_anchor_for_multi=False):
    """Projection of the query snapshot that removes what is legitimately unordered:
    the order of the cycle list, and - for cycles through more than one fixture - which member
    carries the report (hash-seed dependent DFS root; recorded as a C16 known finding)."""
    q = dict(q)
    cyc = []
    for c in q.get("cycles", []):
        p = norm_cycle_path(c["path"])
        if len(p) == 1 or keep_anchor_for_multi:
            cyc.append([list(p), c["anchor"]])
        else:
            cyc.append([list(p), None])
    q["cycles"] = sorted(cyc, key=lambda x: json.dumps(x))
    cif = {}
    for f, lst in q.get("cycles_in_file", {}).items():
        keep = sorted([[list(norm_cycle_path(c["path"])), c["anchor"]] for c in lst
                       if len(norm_cycle_path(c["path"])) == 1 or keep_anchor_for_multi], key=lambda x: json.dumps(x))
        if keep:
            cif[f] = keep
    q["cycles_in_file"] = cif
    return q


def keyed_queries(q):
    """query snapshot keyed by what each answer is about, so that a difference can be attributed to names"""
    k = {"goto": {}, "refs": {}, "available": {}, "unused": {}, "mismatches": {}, "cycles": {}}
    for g in q.get("goto", []):
        u = g["usage"]
        k["goto"][f"{u[0]}:{u[1]}:{u[2]}:{u[4]}"] = g["target"]
    for r in q.get("refs", []):
        d = r["def"]
        k["refs"][f"{d[0]}:{d[1]}:{d[2]}"] = r["refs"]
    for f, lst in q.get("available", {}).items():
        k["available"][f] = {e[0]: [e[1], e[2]] for e in lst}
        if len(lst) != len(k["available"][f]):
            k["available"][f]["<duplicate-names>"] = sorted(e[0] for e in lst)
    for u in q.get("unused", []):
        k["unused"][f"{u[0]}::{u[1]}"] = True
    for f, lst in q.get("mismatches", {}).items():
        for m in lst:
            k["mismatches"][f"{m['fixture'][0]}:{m['fixture'][1]}:{m['fixture'][2]}->{m['dep'][2]}"] = [m["fscope"], m["dscope"], m["dep"]]
    for c in q.get("cycles", []):
        p = norm_cycle_path(c["path"])
        k["cycles"][">".join(p)] = c["anchor"] if len(p) == 1 else None
    return k


def names_in_key(section, key):
    if section == "goto":
        return {key.rsplit(":", 1)[1]}
    if section == "refs":
        return {key.rsplit(":", 1)[1]}
    if section == "unused":
        return {key.rsplit("::", 1)[1]}
    if section == "mismatches":
        left, dep = key.rsplit("->", 1)
        return {left.rsplit(":", 1)[1], dep}
    if section == "cycles":
        return set(key.split(">"))
    return set()


def keyed_diff(a, b):
    """list of (section, key, names, va, vb)"""
    out = []
    for sec in a:
        if sec == "available":
            for f in sorted(set(a[sec]) | set(b[sec])):
                da, db = a[sec].get(f, {}), b[sec].get(f, {})
                for n in sorted(set(da) | set(db)):
                    if da.get(n) != db.get(n):
                        out.append((sec, f"{f}::{n}", {n}, da.get(n), db.get(n)))
        else:
            for key in sorted(set(a[sec]) | set(b[sec])):
                if a[sec].get(key, "<absent>") != b[sec].get(key, "<absent>"):
                    out.append((sec, key, names_in_key(sec, key), a[sec].get(key, "<absent>"), b[sec].get(key, "<absent>")))
    return out
