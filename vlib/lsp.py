"""Minimal LSP client driving the *real* server binary over stdio, recording a full trace.

Every request is logged {seq,id,method,params,t_call,result|error,t_return}; a request
without a reply stays open to the end of the trace.  Notifications are logged in arrival
order.  Liveness is judged from responses, never from waitpid alone.
"""
import json, os, select, subprocess, threading, time, urllib.parse


def path_to_uri(p):
    return "file://" + urllib.parse.quote(p)


def uri_to_path(u):
    assert u.startswith("file://"), u
    return urllib.parse.unquote(u[len("file://"):])


class ServerDied(Exception):
    pass


class LSP:
    def __init__(self, binary, root, env=None, locklog=None, wrapper=None, log_level="warn"):
        e = dict(os.environ)
        e["RUST_LOG"] = log_level
        e.setdefault("RUST_BACKTRACE", "0")
        e.pop("VIRTUAL_ENV", None)
        if env:
            e.update(env)
        if locklog:
            e["VERIF_LOCKLOG"] = locklog
        self.root = root
        self.errpath = os.path.join(os.environ.get("VERIF_SCRATCH", "/tmp"), f"srv_err_{os.getpid()}_{id(self)}.log")
        self.errf = open(self.errpath, "w+")
        self.p = subprocess.Popen((wrapper or []) + [binary], stdin=subprocess.PIPE, stdout=subprocess.PIPE,
                                  stderr=self.errf, env=e)
        self.next_id = 1
        self.trace = []          # requests
        self.notifications = []  # (seq, method, params)
        self.seq = 0
        self.buf = b""
        self.open_requests = {}
        self.eof = False
        self.diag = {}           # uri -> list of published diagnostics lists (in order)
        self.logs = []
        self.versions = {}

    # ---- wire -------------------------------------------------------------------
    def _send(self, obj):
        body = json.dumps(obj).encode()
        frame = b"Content-Length: %d\r\n\r\n" % len(body) + body
        if getattr(self, "_batch", None) is not None:
            self._batch.append(frame)
            return
        try:
            self.p.stdin.write(frame)
            self.p.stdin.flush()
        except (BrokenPipeError, OSError):
            self.eof = True

    def batch(self):
        """context manager: the messages sent inside leave in ONE write (they are in the server's pipe together, as when
        an editor flushes several notifications at once)"""
        lsp = self

        class _B:
            def __enter__(self_):
                lsp._batch = []

            def __exit__(self_, *a):
                frames, lsp._batch = lsp._batch, None
                try:
                    lsp.p.stdin.write(b"".join(frames))
                    lsp.p.stdin.flush()
                except (BrokenPipeError, OSError):
                    lsp.eof = True
        return _B()

    def _read_message(self, timeout):
        deadline = time.time() + timeout
        fd = self.p.stdout.fileno()
        while True:
            # try to parse one message from buf
            idx = self.buf.find(b"\r\n\r\n")
            if idx >= 0:
                header = self.buf[:idx].decode("ascii", "replace")
                length = None
                for h in header.split("\r\n"):
                    if h.lower().startswith("content-length:"):
                        length = int(h.split(":")[1].strip())
                if length is not None and len(self.buf) >= idx + 4 + length:
                    body = self.buf[idx + 4: idx + 4 + length]
                    self.buf = self.buf[idx + 4 + length:]
                    return json.loads(body)
            if self.eof:
                return None
            left = deadline - time.time()
            if left <= 0:
                return None
            r, _, _ = select.select([fd], [], [], min(left, 0.5))
            if r:
                chunk = os.read(fd, 1 << 20)
                if not chunk:
                    self.eof = True
                else:
                    self.buf += chunk

    def _dispatch(self, msg):
        self.seq += 1
        if "method" in msg and "id" in msg:
            # server -> client request: answer null
            self.notifications.append((self.seq, msg["method"], msg.get("params")))
            self._send({"jsonrpc": "2.0", "id": msg["id"], "result": None})
        elif "method" in msg:
            self.notifications.append((self.seq, msg["method"], msg.get("params")))
            if msg["method"] == "textDocument/publishDiagnostics":
                p = msg["params"]
                self.diag.setdefault(p["uri"], []).append((self.seq, p["diagnostics"]))
            elif msg["method"] == "window/logMessage":
                self.logs.append(msg["params"].get("message", ""))
        elif "id" in msg:
            rec = self.open_requests.pop(msg["id"], None)
            if rec is not None:
                rec["t_return"] = time.monotonic()
                rec["seq_return"] = self.seq
                if "error" in msg:
                    rec["error"] = msg["error"]
                else:
                    rec["result"] = msg.get("result")
                rec["answered"] = True

    def pump(self, timeout=0.0):
        """process whatever has arrived"""
        end = time.time() + timeout
        while True:
            m = self._read_message(max(0.0, end - time.time()))
            if m is None:
                return
            self._dispatch(m)

    # ---- API ---------------------------------------------------------------------
    def request(self, method, params, timeout=30.0):
        rid = self.next_id
        self.next_id += 1
        self.seq += 1
        rec = {"seq": self.seq, "id": rid, "method": method, "params": params, "t_call": time.monotonic(),
               "answered": False}
        self.trace.append(rec)
        self.open_requests[rid] = rec
        self._send({"jsonrpc": "2.0", "id": rid, "method": method, "params": params})
        deadline = time.time() + timeout
        while not rec["answered"]:
            left = deadline - time.time()
            if left <= 0 or self.eof:
                break
            m = self._read_message(left)
            if m is None:
                if self.eof:
                    break
                continue
            self._dispatch(m)
        return rec

    def request_nowait(self, method, params):
        """send a request without waiting (use wait_for afterwards); usable inside batch()"""
        rid = self.next_id
        self.next_id += 1
        self.seq += 1
        rec = {"seq": self.seq, "id": rid, "method": method, "params": params, "t_call": time.monotonic(), "answered": False}
        self.trace.append(rec)
        self.open_requests[rid] = rec
        self._send({"jsonrpc": "2.0", "id": rid, "method": method, "params": params})
        return rec

    def wait_for(self, rec, timeout=30.0):
        deadline = time.time() + timeout
        while not rec["answered"] and time.time() < deadline and not self.eof:
            m = self._read_message(max(0.05, deadline - time.time()))
            if m is not None:
                self._dispatch(m)
        return rec

    def notify(self, method, params):
        self.seq += 1
        self.trace.append({"seq": self.seq, "id": None, "method": method, "params": params,
                           "t_call": time.monotonic(), "answered": True, "notification": True})
        self._send({"jsonrpc": "2.0", "method": method, "params": params})

    def initialize(self, wait_scan=True, timeout=60.0):
        rec = self.request("initialize", {"processId": os.getpid(), "rootUri": path_to_uri(self.root),
                                          "capabilities": {}}, timeout=timeout)
        if not rec["answered"]:
            return rec
        self.notify("initialized", {})
        if wait_scan:
            self.wait_log("Workspace scan complete", timeout)
        return rec

    def wait_log(self, needle, timeout=60.0):
        deadline = time.time() + timeout
        while time.time() < deadline and not self.eof:
            if any(needle in l for l in self.logs):
                return True
            self.pump(0.2)
        return any(needle in l for l in self.logs)

    def did_open(self, path, text, version=1):
        uri = path_to_uri(path)
        self.versions[uri] = version
        self.notify("textDocument/didOpen", {"textDocument": {"uri": uri, "languageId": "python",
                                                              "version": version, "text": text}})

    def did_change(self, path, text):
        uri = path_to_uri(path)
        v = self.versions.get(uri, 1) + 1
        self.versions[uri] = v
        self.notify("textDocument/didChange", {"textDocument": {"uri": uri, "version": v},
                                               "contentChanges": [{"text": text}]})

    def did_close(self, path):
        self.notify("textDocument/didClose", {"textDocument": {"uri": path_to_uri(path)}})

    def wait_diagnostics(self, path, after_seq, timeout=20.0):
        """wait for a publishDiagnostics for path that arrived after sequence number after_seq"""
        uri = path_to_uri(path)
        deadline = time.time() + timeout
        while time.time() < deadline and not self.eof:
            for (sq, d) in self.diag.get(uri, []):
                if sq > after_seq:
                    return d
            self.pump(0.1)
        for (sq, d) in self.diag.get(uri, []):
            if sq > after_seq:
                return d
        return None

    def pos_request(self, method, path, line, char, extra=None, timeout=30.0):
        params = {"textDocument": {"uri": path_to_uri(path)}, "position": {"line": line, "character": char}}
        if extra:
            params.update(extra)
        return self.request(method, params, timeout)

    def definition(self, path, line, char, **kw):
        return self.pos_request("textDocument/definition", path, line, char, **kw)

    def references(self, path, line, char, **kw):
        return self.pos_request("textDocument/references", path, line, char,
                                extra={"context": {"includeDeclaration": True}}, **kw)

    def hover(self, path, line, char, **kw):
        return self.pos_request("textDocument/hover", path, line, char, **kw)

    def implementation(self, path, line, char, **kw):
        return self.pos_request("textDocument/implementation", path, line, char, **kw)

    def completion(self, path, line, char, trigger=None, **kw):
        extra = None
        if trigger:
            extra = {"context": {"triggerKind": 2, "triggerCharacter": trigger}}
        return self.pos_request("textDocument/completion", path, line, char, extra=extra, **kw)

    def prepare_call_hierarchy(self, path, line, char, **kw):
        return self.pos_request("textDocument/prepareCallHierarchy", path, line, char, **kw)

    def incoming(self, item, **kw):
        return self.request("callHierarchy/incomingCalls", {"item": item}, **kw)

    def outgoing(self, item, **kw):
        return self.request("callHierarchy/outgoingCalls", {"item": item}, **kw)

    def doc_request(self, method, path, extra=None, timeout=30.0):
        params = {"textDocument": {"uri": path_to_uri(path)}}
        if extra:
            params.update(extra)
        return self.request(method, params, timeout)

    def document_symbol(self, path, **kw):
        return self.doc_request("textDocument/documentSymbol", path, **kw)

    def code_lens(self, path, **kw):
        return self.doc_request("textDocument/codeLens", path, **kw)

    def inlay_hint(self, path, start_line=0, end_line=100000, **kw):
        return self.doc_request("textDocument/inlayHint", path,
                                extra={"range": {"start": {"line": start_line, "character": 0},
                                                 "end": {"line": end_line, "character": 0}}}, **kw)

    def code_action(self, path, rng, diagnostics, **kw):
        return self.doc_request("textDocument/codeAction", path,
                                extra={"range": rng, "context": {"diagnostics": diagnostics}}, **kw)

    def workspace_symbol(self, query="", **kw):
        return self.request("workspace/symbol", {"query": query}, **kw)

    def stderr_text(self):
        try:
            self.errf.flush()
            self.errf.seek(0)
            return self.errf.read()
        except Exception:
            return ""

    def shutdown(self, timeout=10.0):
        """returns (shutdown_answered, exit_status, stderr)"""
        answered = False
        if not self.eof and self.p.poll() is None:
            rec = self.request("shutdown", None, timeout=timeout)
            answered = rec["answered"]
            self.notify("exit", None)
        try:
            rc = self.p.wait(timeout=5)
        except subprocess.TimeoutExpired:
            self.p.kill()
            rc = self.p.wait()
        err = self.stderr_text()
        try:
            self.errf.close()
            os.unlink(self.errpath)
        except Exception:
            pass
        return answered, rc, err

    def kill(self):
        try:
            self.p.kill()
            self.p.wait()
        except Exception:
            pass
        err = self.stderr_text()
        try:
            self.errf.close()
            os.unlink(self.errpath)
        except Exception:
            pass
        return err

    def alive(self):
        return self.p.poll() is None and not self.eof

    def unanswered(self):
        return [r for r in self.trace if not r.get("answered")]
