"""Pinned witnesses of the known findings (one deterministic input per entry of known_findings.json).

Every check feeds the witnesses of its property through the SAME judging code as its generated workload
at the start of every run, so the KNOWN-FINDING line is printed deterministically; if a witness stops
deviating the check prints a NOTE (the finding is a candidate for 'fixed').  tools/write_known.py writes
the same data under /verif/known/<id>/ for human readers.
"""
import json, os

from . import gen
from .common import write_tree

HDR = "import pytest\nfrom typing import Iterator\n\n"


def fx(name, k, deps=(), scope=None, multiline=False, ret=True):
    d = f'@pytest.fixture(scope="{scope}")' if scope else "@pytest.fixture"
    r = f" -> T{k}" if ret else ""
    if multiline and deps:
        sig = f"def {name}(\n" + "".join(f"    {a},\n" for a in deps) + f"){r}:"
    else:
        sig = f"def {name}({', '.join(deps)}){r}:"
    return f'{d}\n{sig}\n    """DOC{k} for {name}."""\n    return {k}\n\n'


# --- the import-branch defect: first-registered same-named definition --------------------------------------------
IMPORT_FIRST = {
    "files": {
        "b/conftest.py": HDR + fx("shared", 1),
        "b/test_b.py": "def test_b(shared):\n    pass\n",
        "a/fixmod.py": HDR + fx("shared", 2),
        "a/conftest.py": "from .fixmod import *\n",
        "a/test_a.py": "import pytest\n\ndef test_a(shared):\n    pass\n\n@pytest.mark.usefixtures(\"shared\")\ndef test_m():\n    pass\n",
    },
    "order": ["b/conftest.py", "b/test_b.py", "a/fixmod.py", "a/conftest.py", "a/test_a.py"],
    "other_order": ["a/fixmod.py", "a/conftest.py", "a/test_a.py", "b/conftest.py", "b/test_b.py"],
    "spec": {"depth": 1, "names": ["shared"], "levels": [], "places": ["conf1"], "multiline": False},
    "why": "a/conftest.py star-imports a/fixmod.py (defines shared); b/conftest.py (a sibling, invisible from a/) also defines shared and is registered first",
}

WITNESS = {
    "KF-C01-import-first-registered": IMPORT_FIRST,
    "KF-C02-import-first-registered": {
        "files": {
            "conftest.py": HDR + fx("res", 1),
            "a/sib/conftest.py": HDR + fx("res", 2),
            "a/sib/test_use.py": "def test_s(res):\n    pass\n",
            "a/chainmod.py": HDR + fx("res", 3, deps=["res"]),
            "a/conftest.py": "from .chainmod import *\n",
            "a/test_use.py": "def test_use(res):\n    pass\n",
        },
        "order": ["a/sib/conftest.py", "a/sib/test_use.py", "conftest.py", "a/chainmod.py", "a/conftest.py", "a/test_use.py"],
        "spec": {"depth": 3, "names": ["res"], "places": ["conf1", "conf0"], "multiline": False, "imported": ["conf1"]},
        "why": "the override lives in a module that a/conftest.py star-imports; a sibling conftest registered first carries the same name",
    },
    "KF-C02-self-param-on-continuation-line": {
        "files": {
            "conftest.py": HDR + fx("res", 1),
            "a/conftest.py": HDR + fx("res", 2, deps=["res"], multiline=True),
            "a/test_use.py": "def test_use(res):\n    pass\n",
        },
        "order": ["conftest.py", "a/conftest.py", "a/test_use.py"],
        "spec": {"depth": 3, "names": ["res"], "places": ["conf1", "conf0"], "multiline": True, "imported": []},
        "why": "def res(\\n    res,\\n): the parameter is on a continuation line",
    },
    "KF-C05-per-file-view-ignores-self-exclusion": {
        "files": {
            "conftest.py": HDR + fx("fx_a", 1),
            "a/conftest.py": HDR + fx("fx_a", 2, deps=["fx_a"]),
            "a/test_probe.py": HDR + "def test_p(fx_a):\n    pass\n\n@pytest.mark.usefixtures()\ndef test_zz_view_probe():\n    pass\n",
        },
        "spec": "witness: override requesting its parent; inlay hint on the parameter shows the override's own type",
        "why": "def fx_a(fx_a) in a/conftest.py: definition/hover go to the parent, inlay hint says T2 (the override itself)",
    },
    "KF-C06-unparsable-file-loses-reexports": {
        "files": {
            "conftest.py": "from .fxm import *\n",
            "fxm.py": HDR + fx("fx_a", 1),
            "test_probe.py": "def test_p(fx_a):\n    pass\n",
        },
        "steps": [{"op": "break_paren", "rel": "conftest.py", "text": "from .fxm import *\n\ndef broken(\n", "valid": False}],
        "spec": {"depth": 0, "names": ["fx_a"], "levels": []},
        "why": "the conftest that re-exports fx_a becomes unparsable: fx_a is no longer available/resolvable below it",
    },
    "KF-C08-first-registered-picks": IMPORT_FIRST,
    "KF-C14-import-first-registered": IMPORT_FIRST,
    "KF-C14-imports-into-test-module-not-resolvable": {
        "files": {
            "pkg/m0.py": "import pytest\n\n" + fx("f0", 1),
            "pkg/test_direct.py": "from .m0 import *\n\ndef test_p_f0(f0):\n    pass\n",
        },
        "order": ["pkg/m0.py", "pkg/test_direct.py"],
        "spec": {"depth": 1, "names": ["f0"], "mods": [["pkg/m0.py", []]], "entries": []},
        "why": "a test module star-imports a fixture module; go-to-definition from the test is empty",
    },
    "KF-C14-explicit-import-in-plugin-not-propagated": {
        "venv": True,
        "why": "in-workspace editable plugin whose entry module does `from .helpers import ed0_fix_h`",
    },
    "KF-C15": {
        "files": {
            "conftest.py": ("import pytest\n\n@pytest.fixture\ndef db(): return 1  # one-line definition\n\n"
                            "mocker = pytest.fixture()(lambda: 1)\n\n"
                            "@pytest.fixture\ndef user(db):  # é before nothing\n    return db\n\n"
                            "@pytest.fixture\ndef two(db, user): return 1\n"),
            "pkg/conftest.py": "import pytest\n\n@pytest.fixture\ndef db(db):\n    return db\n",
            "pkg/test_mod.py": ("import pytest\n\nLABEL = 'é'\n\n"
                                "@pytest.mark.usefixtures(r\"db\", \"\"\"user\"\"\")\ndef test_a(): pass\n\n"
                                "@pytest.mark.parametrize(\"db,user\", [(1, 2)], indirect=True)\ndef test_b(db, user): pass\n\n"
                                "def test_c(db): x = 'é'; y = [db, 'é', user]\n\n"
                                "def test_d(é_param, user): pass  # é\n"),
        },
        "why": "one workspace showing all five position findings",
    },
    "KF-C16-cycle-graph-is-name-level-first-registered": {
        "files": {
            "c/conftest.py": "import pytest\n\n@pytest.fixture\ndef over():\n    return 1\n\n",
            "c/sub/conftest.py": "import pytest\n\n@pytest.fixture\ndef over(over):\n    return over\n\n",
            "c/sub/test_mod.py": "def test_t(over):\n    pass\n",
        },
        "order": ["c/sub/conftest.py", "c/conftest.py", "c/sub/test_mod.py"],
        "spec": {"unique": False, "placed": [["over", "c/conftest.py", [], "function"], ["over", "c/sub/conftest.py", ["over"], "function"]],
                 "depth": 2, "names": ["over"]},
        "why": "the README's override pattern; with the overriding definition registered first it is reported as 'over -> over'",
    },
    "KF-C16-cycle-report-depends-on-hash-order": {
        "files": {
            "conftest.py": "import pytest\n\n@pytest.fixture\ndef a(b):\n    return 1\n\n@pytest.fixture\ndef b(a, c):\n    return 1\n\n@pytest.fixture\ndef c(a):\n    return 1\n\n",
            "test_mod.py": "def test_t(a):\n    pass\n",
        },
        "order": ["conftest.py", "test_mod.py"],
        "spec": {"unique": True, "placed": [["a", "conftest.py", ["b"], "function"], ["b", "conftest.py", ["a", "c"], "function"],
                                            ["c", "conftest.py", ["a"], "function"]], "depth": 0, "names": ["a", "b", "c"]},
        "why": "one SCC {a,b,c} with two elementary cycles: which are listed and on which member varies between databases",
    },
    "KF-C17-parameter-insertion-by-text-search": {
        "doc": ("import pytest\n\ndef test_first() -> None:\n    v = fa\n    pass\n\ndef test_second(fb):\n    pass\n\n"
                "def test_third(\n    fb,\n):\n    w = fa.x\n    pass\n"),
        "why": "return annotation: '):' is not on the def line, the completion's parameter edit lands in test_second; trailing comma: ',,'",
    },
    "KF-C18": {
        "why": "three text-fallback findings, each with its own document",
    },
    "KF-C20-order-sensitive-names-vary-between-runs": IMPORT_FIRST,
    "KF-C10-scan-after-open": {"why": "covered by the check's deterministic open-first sequence (always executed)"},
}


def ws_from_witness(ctx, w, name="pinned"):
    root = ctx.scratch(name)
    ws = gen.WS(root)
    ws.files = dict(w["files"])
    ws.spec = w.get("spec", {})
    write_tree(root, ws.files)
    return ws


def report_unseen(ctx):
    """after a run: every listed finding of this property must have been seen on its witness"""
    for kf_id in ctx.kf_defs:
        if ctx.kf_seen.get(kf_id, 0) == 0:
            print(f"NOTE known finding {kf_id} did not reproduce in this run (candidate for 'fixed' if its witness was executed)", flush=True)
