"""G-hostile: document contents, positions and metadata meant to break byte-indexed slicing,
stale-position handling and metadata parsing."""
import random

GOOD_CONFTEST = 'import pytest\n\n@pytest.fixture\ndef good_fixture() -> int:\n    """Good."""\n    return 1\n'
GOOD_TEST = "def test_good(good_fixture):\n    pass\n"

MB = ["é", "ß", "中", "😀", "\u3000", "\u00a0", "e\u0301", "\u200b", "𝒳", "\u2028"]


def docs(rng, thorough=False):
    """list of (label, text)"""
    out = []
    add = lambda l, t: out.append((l, t))
    add("empty", "")
    add("only_newlines", "\n\n\n")
    add("bom", "\ufeffimport pytest\n\n@pytest.fixture\ndef f():\n    return 1\n\ndef test_a(f):\n    pass\n")
    add("nul_inside", "import pytest\n\x00\n@pytest.fixture\ndef f():\n    return 1\n")
    add("lone_cr", "import pytest\r\r@pytest.fixture\rdef f():\r    return 1\r\rdef test_a(f):\r    pass\r")
    add("crlf", "import pytest\r\n\r\n@pytest.fixture\r\ndef f():\r\n    '''d\r\n    e'''\r\n    return 1\r\n\r\ndef test_a(f):\r\n    pass\r\n")
    for ch in MB:
        add(f"mb_comment_{ord(ch[0]):x}",
            f"import pytest  # {ch*3}\n\n@pytest.fixture\ndef f(): # {ch}\n    \"\"\"{ch} doc {ch}\n    {ch}{ch} second\n  {ch} third\n    \"\"\"\n    return '{ch}'\n\n"
            f"@pytest.mark.usefixtures(\"f\")  # {ch}\ndef test_a(f, {'x'}):  # {ch*2}\n    s = '{ch}'; f.y\n    return f\n")
        add(f"mb_before_tokens_{ord(ch[0]):x}",
            f"import pytest\n\n@pytest.fixture\ndef f(): return '{ch}'\n\nclass Test{'' }A:\n    @pytest.mark.usefixtures('{'f'}') # {ch}\n    def test_m(self, f): x = '{ch}{ch}'; assert f\n"
            f"x = '{ch}'; pytestmark = [pytest.mark.usefixtures('f')]\n")
    # docstring indentation mixes (the dedent routine)
    for ws1 in [" ", "  ", "\t", "\u3000", "\u00a0", " \u3000", "\u3000 "]:
        for ws2 in [" ", "    ", "\u3000", "\u00a0\u00a0", "\u3000\u3000\u3000"]:
            add(f"doc_indent_{len(out)}",
                f"import pytest\n\n@pytest.fixture\ndef f():\n    \"\"\"First\n{ws1}second line\n{ws2}third line\n\n{ws1}{ws2}x\n    \"\"\"\n    return 1\n\ndef test_a(f):\n    pass\n")
    add("doc_only_ws", 'import pytest\n\n@pytest.fixture\ndef f():\n    """   \n\u3000\n   """\n    return 1\n')
    add("doc_empty", 'import pytest\n\n@pytest.fixture\ndef f():\n    """"""\n    return 1\n')
    add("long_line", "import pytest\n\n@pytest.fixture\ndef f():\n    return '" + "é" * (200000 if thorough else 40000) + "'\n\ndef test_a(f):\n    pass\n")
    add("many_lines", "import pytest\n" + "\n" * (100000 if thorough else 20000) + "@pytest.fixture\ndef f():\n    return 1\n\ndef test_a(f):\n    pass\n")
    add("chain_1500", "import pytest\n\n@pytest.fixture\ndef f():\n    return " + "+".join(["1"] * 1500) + "\n\ndef test_a(f):\n    x = f" + "+f" * 400 + "\n")
    add("nested_150", "import pytest\n\n@pytest.fixture\ndef f():\n    return " + "[" * 150 + "]" * 150 + "\n\ndef test_a(f):\n    x = " + "(" * 150 + "f" + ")" * 150 + "\n")
    add("unterminated_string", "import pytest\n\n@pytest.fixture\ndef f():\n    return 'abc\n")
    add("unterminated_triple", 'import pytest\n\n@pytest.fixture\ndef f():\n    """abc\n    return 1\n')
    add("only_decorators", "@pytest.fixture\n@pytest.mark.usefixtures('a')\n")
    add("tabs", "import pytest\n\n@pytest.fixture\ndef f():\n\treturn 1\n\ndef test_a(\tf\t,\tg = 1):\n\tpass\n")
    add("unicode_identifiers", "import pytest\n\n@pytest.fixture\ndef fixturé(ünïcode):\n    return 1\n\n@pytest.mark.usefixtures('fixturé', 'ünïcode')\ndef test_ü(fixturé, *, ünïcode):\n    ünïcode.x; fixturé()\n")
    add("weird_marks", "import pytest\n\npytestmark: int\npytest_plugins = 5\n\n@pytest.mark.usefixtures()\n@pytest.mark.parametrize(indirect=True)\n"
        "@pytest.mark.parametrize('a,b', [], indirect=['a', 1, None, 'zz'])\n@pytest.mark.parametrize(('a', 'b'), [], indirect=True)\n"
        "@pytest.mark.usefixtures(f'x{1}', b'bytes', 'ok', *['s'], **{})\ndef test_a(a, b):\n    pass\n\npytestmark = pytest.mark.usefixtures\npytestmark = [[pytest.mark.usefixtures('q')], (), None]\n")
    add("weird_fixture_forms", "import pytest\nfrom pytest import fixture\n\n@pytest.fixture(name=5, scope=None, autouse='yes')\ndef a(): pass\n\n@fixture(scope='SESSION', name='')\ndef b(a, /, *args, c=1, **kw): yield\n\n"
        "c = pytest.fixture()(lambda: 1)\nd, e = pytest.fixture()(a), 2\nf = g = pytest.fixture(scope='x')(a)\n[h, i] = pytest.fixture()(a)\n\n@pytest.fixture\nclass K: pass\n\n@pytest.fixture\nasync def z():\n    async with z() as q:\n        yield q\n")
    add("escapes_in_strings", 'import pytest\n\n@pytest.mark.usefixtures("\\x41b", "a\\nb", r"raw\\n", """tri\nple""", "a" "b", u"uni")\ndef test_a():\n    pass\n')
    add("semicolons_one_line", "import pytest; f = pytest.fixture()(lambda: 1)\n@pytest.fixture\ndef g(f): return f; yield\ndef test_a(f, g): pass; f; g\n")
    add("return_annotations", "import pytest\nfrom typing import *\n\n@pytest.fixture\ndef f() -> 'Iterator[\"é\"]':\n    yield 1\n\n@pytest.fixture\ndef g() -> Callable[[int, ...], Literal['x', 1, None, ...]]: return 1\n\n@pytest.fixture\ndef h() -> (lambda: 1): return 1\n\n@pytest.fixture\ndef i() -> Generator[int] | None | 'é': yield\n")
    add("sig_comment_parens", "import pytest\n\n@pytest.fixture\ndef f():\n    return 1\n\ndef test_a(\n    f,\n    g=1\n):  # type: (Database, Cache) -> None\n    x = 1\n    return x\n\n"
        "def test_b(f):  # regression (issue 12)\n    y = 2\n    return y\n\ndef test_c(f): return (f, (1))\n")
    # an acyclic ladder of diamonds: linearly many fixtures, exponentially many dependency paths
    lad = "import pytest\n\n"
    for i in range(40):
        lad += f"@pytest.fixture\ndef a{i}(b{i}, c{i}):\n    return 1\n\n@pytest.fixture\ndef b{i}(a{i + 1}):\n    return 1\n\n@pytest.fixture\ndef c{i}(a{i + 1}):\n    return 1\n\n"
    lad += "@pytest.fixture\ndef a40():\n    return 1\n\ndef test_l(a0):\n    pass\n"
    add("diamond_ladder_40", lad)
    # inlay-hint targets: annotated fixtures requested by parameters at many columns
    add("inlay_targets", "import pytest\n\n@pytest.fixture\ndef f() -> int:\n    return 1\n\n@pytest.fixture\ndef gg(f) -> 'Str':\n    return f\n\n"
        "def test_a(f, gg, good_fixture):\n    pass\n\nclass TestK:\n    def test_m(self, gg, f): pass\n\ndef test_b(\n    f,\n    gg,\n):\n    pass\n")
    # documents in the middle of being typed (text fallback paths), with leading blank lines / decorators
    base = "\n\n@pytest.fixture(scope=\"session\")\n\n@other\ndef fx_typing(a, b):\n    pass\n\n\n@pytest.mark.usefixtures(\"a\",\n    \"b\")\ndef test_login(a, b):\n    return 1\n"
    for cut in range(3, len(base), 7 if not thorough else 2):
        add(f"typing_prefix_{cut}", base[:cut])
    for pre in ("\n@pytest.fixture\ndef database(", "\n\n@pytest.fixture\n@other\n\ndef db(a, ", "\n@fixture\ndef x(",
                "\n\ndef test_login(", "\n\n\n@x\n\n@y\ndef test_a(", "\n@pytest.fixture\n\nasync def f(", "\n \n\t\ndef test_z(a,",
                "\n\n@pytest.mark.usefixtures(", "\npytestmark = [pytest.mark.usefixtures(", "def test_q(a\n\n\n", "\n" * 60 + "def test_far("):
        add(f"typing_{len(out)}", pre)
    return out


def break_versions(text, rng):
    """texts that do NOT parse and whose lines differ from `text` so that recorded byte columns are stale:
    inside multi-byte characters, past the end of the line, on vanished lines"""
    lines = text.split("\n")
    out = []
    # 1) every line replaced by multi-byte filler of odd/even phase + an unbalanced paren
    for ch, phase in (("é", ""), ("é", "a"), ("😀", ""), ("😀", "ab"), ("中", "a")):
        out.append("\n".join(phase + ch * max(1, len(l)) for l in lines) + "\n(")
    # 2) lines truncated to 1 char
    out.append("\n".join(l[:1] for l in lines) + "\n(")
    # 3) document shrunk to one line
    out.append("(" + "é")
    # 4) same text with a multi-byte char inserted at the start of every line + syntax error
    out.append("\n".join("é" + l for l in lines) + "\ndef (\n")
    # 5) empty-ish
    out.append("(")
    return out


def positions(text, rng, limit=40):
    lines = text.split("\n")
    pos = [(0, 0), (len(lines), 0), (len(lines) + 5, 3), (2 ** 31 - 1, 0), (2 ** 32 - 1, 2 ** 32 - 1), (0, 2 ** 32 - 1)]
    idx = list(range(len(lines)))
    rng.shuffle(idx)
    for i in idx[:12]:
        n = len(lines[i])
        for c in {0, 1, n // 2, max(0, n - 1), n, n + 1, n + 7}:
            pos.append((i, c))
    rng.shuffle(pos)
    return pos[:limit]


def metadata_cases():
    """{label: {relpath: bytes|str}} placed under a workspace root (with .venv)"""
    sp = ".venv/lib/python3.11/site-packages"
    good = {"conftest.py": GOOD_CONFTEST, "test_good.py": GOOD_TEST, f"{sp}/_pytest/__init__.py": ""}
    cases = {}

    def case(label, extra):
        d = dict(good)
        d.update(extra)
        cases[label] = d
    case("distinfo_unicode_editable", {f"{sp}/aé-1.0.dist-info/direct_url.json": '{"dir_info": {"editable": true}, "url": "file:///x"}',
                                       f"{sp}/aé-1.0.dist-info/entry_points.txt": "[pytest11]\nx = aé\n",
                                       f"{sp}/__editable__.aé-1.0.pth": "/nonexistent\n"})
    case("distinfo_unicode_before_version", {f"{sp}/éé-é-2.dist-info/direct_url.json": '{"dir_info": {"editable": true}}',
                                             f"{sp}/名前-3.1.dist-info/direct_url.json": '{"dir_info": {"editable": true}}',
                                             f"{sp}/x😀-1.dist-info/direct_url.json": '{"dir_info": {"editable": true}}'})
    case("entry_points_garbage", {f"{sp}/p-1.dist-info/entry_points.txt": b"[pytest11]\n\xff\xfe = \x00\n= =\n[\n]\n[pytest11\nx\n = \ny = ..\nz = a..b\nw = :::\nv=" + b"a." * 5000 + b"\n",
                                  f"{sp}/q-1.egg-info/entry_points.txt": "[pytest11]\n" + "n = m\n" * 2000})
    case("entry_points_traversal", {f"{sp}/p-1.dist-info/entry_points.txt": "[pytest11]\na = ../../../conftest\nb = /etc/passwd\nc = conftest:attr:more\nd = \n"})
    case("pth_hostile", {f"{sp}/e-1.dist-info/direct_url.json": '{"dir_info": {"editable": true}}',
                         f"{sp}/__editable__.e-1.pth": b"import os\n#c\n\x00\x01\n../..\n" + b"a" * 70000 + b"\n\xff\xff\n/\n.\n",
                         f"{sp}/_e.pth": "é" * 5000 + "\n", f"{sp}/e.pth": ""})
    case("direct_url_hostile", {f"{sp}/a-1.dist-info/direct_url.json": "[" * 3000,
                                f"{sp}/b-1.dist-info/direct_url.json": '{"dir_info": {"editable": "yes"}}',
                                f"{sp}/c-1.dist-info/direct_url.json": b"\xff\xfe",
                                f"{sp}/d-1.dist-info/direct_url.json": '{"dir_info": null}',
                                f"{sp}/-.dist-info/direct_url.json": '{"dir_info": {"editable": true}}',
                                f"{sp}/.dist-info/direct_url.json": '{"dir_info": {"editable": true}}',
                                f"{sp}/-1.dist-info/direct_url.json": '{"dir_info": {"editable": true}}'})
    for i, body in enumerate([b"\xff\xfe\x00", b"[tool", "[tool.pytest-language-server]\nexclude = 5\n",
                              "[tool.pytest-language-server]\nexclude = [1, 2]\ndisabled_diagnostics = 'x'\n",
                              "[tool.pytest-language-server]\nexclude = ['[', '***', 'a/**/b', '']\ndisabled_diagnostics = ['nope', '']\nunknown = {a = 1}\n",
                              "tool = 5\n", "[tool]\npytest-language-server = 'x'\n", "[[tool.pytest-language-server]]\n", "x = " + "[" * 2000]):
        case(f"pyproject_hostile_{i}", {"pyproject.toml": body})
    case("mutual_pytest_plugins", {"conftest.py": GOOD_CONFTEST + "\npytest_plugins = [\"plugins.db\"]\n", "plugins/__init__.py": "",
                                   "plugins/db.py": "import pytest\npytest_plugins = [\"plugins.cache\"]\n\n@pytest.fixture\ndef dbx():\n    return 1\n",
                                   "plugins/cache.py": "import pytest\npytest_plugins = [\"plugins.db\", \"plugins.cache\"]\n\n@pytest.fixture\ndef cachex():\n    return 1\n",
                                   "test_uses.py": "def test_u(dbx, cachex, good_fixture):\n    pass\n"})
    # .pth files whose names continue a candidate name (<pkg>, _<pkg>, __editable__.<pkg>, raw or normalised) with a
    # non-ASCII character; the editable package's own path file has another name (legacy easy-install.pth)
    case("pth_names_non_ascii_after_candidate", {
        f"{sp}/cafe-1.0.dist-info/direct_url.json": '{"dir_info": {"editable": true}, "url": "file:///nonexistent/cafe"}',
        f"{sp}/cafe-1.0.dist-info/entry_points.txt": "[pytest11]\ncafe = cafe.plugin\n",
        f"{sp}/My_Pkg-2.dist-info/direct_url.json": '{"dir_info": {"editable": true}}',
        f"{sp}/cafe\u2013tools.pth": "/nonexistent\n", f"{sp}/_cafe\u00e9.pth": "/nonexistent\n", f"{sp}/__editable__.cafe\u2014x.pth": "/nonexistent\n",
        f"{sp}/cafe\U0001F600.pth": "/nonexistent\n", f"{sp}/my_pkg\u3000.pth": "/nonexistent\n", f"{sp}/my-pkg\u00df1.pth": "/nonexistent\n",
        f"{sp}/__editable__.my_pkg\u2013.pth": "/nonexistent\n", f"{sp}/easy-install.pth": "/nonexistent/cafe\n"})
    # entry-point plugin modules that star-import each other in a cycle, a plugin module that star-imports itself, and
    # the same cycle entered from a conftest
    case("plugin_modules_star_import_cycle", {
        f"{sp}/cyc_plug/__init__.py": "", f"{sp}/cyc_plug-1.0.dist-info/entry_points.txt": "[pytest11]\ncyc = cyc_plug.fixtures\nselfy = cyc_plug.selfy\n",
        f"{sp}/cyc_plug/fixtures.py": "import pytest\nfrom .helpers import *\nfrom cyc_plug.third import *\n\n@pytest.fixture\ndef cyc_a():\n    return 1\n",
        f"{sp}/cyc_plug/helpers.py": "import pytest\nfrom .fixtures import *\n\n@pytest.fixture\ndef cyc_b():\n    return 1\n",
        f"{sp}/cyc_plug/third.py": "import pytest\nfrom .helpers import *\nfrom .third import *\n\n@pytest.fixture\ndef cyc_c():\n    return 1\n",
        f"{sp}/cyc_plug/selfy.py": "import pytest\nfrom .selfy import *\nfrom cyc_plug.selfy import *\n\n@pytest.fixture\ndef cyc_s():\n    return 1\n",
        "wsplug/__init__.py": "", "wsplug/a.py": "import pytest\nfrom .b import *\n\n@pytest.fixture\ndef ws_a():\n    return 1\n",
        "wsplug/b.py": "import pytest\nfrom .a import *\n\n@pytest.fixture\ndef ws_b():\n    return 1\n",
        f"{sp}/wsplug-0.1.dist-info/entry_points.txt": "[pytest11]\nws = wsplug.a\n",
        "conftest.py": GOOD_CONFTEST + "from wsplug.a import *\n", "test_uses.py": "def test_u(cyc_a, cyc_b, cyc_s, ws_a, ws_b, good_fixture):\n    pass\n"})
    case("non_utf8_python", {"test_bad.py": b"def test_x(good_fixture):\n    s = '\xff\xfe'\n", "sub/conftest.py": b"\xff\xfe\x00\x00"})
    case("dir_named_like_test", {"test_dir.py/inner.txt": "x", "sub/conftest.py/x.txt": "y", "sub/test_ok.py": GOOD_TEST, "sub/deep_test.py/conftest.py": GOOD_CONFTEST})
    return cases
