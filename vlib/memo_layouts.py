"""Directed import layouts on which a partially explored import walk (cut short by the walk's `visited` set) exists: what
one query memoises must not change what a later, independent query answers.  Used by C07 (query-order invisibility) and
C01 (resolution through the second entry point).  Each layout: files, the probe modules (one per entry directory) and the
names every probe must see."""

FX = "import pytest\n\n@pytest.fixture\ndef {n}():\n    return 1\n\n"


def _probe(names):
    return "".join(f"def test_p_{n}({n}):\n    pass\n\n" for n in names)


def layouts():
    out = []
    # 1. a <-> b star-import each other, a also star-imports c; one conftest enters through a, a sibling through b
    names = ["a_fx", "b_fx", "c_fx"]
    out.append({
        "name": "cycle_with_a_third_module_two_entry_points",
        "files": {
            "mods/__init__.py": "", "mods/a.py": "from mods.b import *\nfrom mods.c import *\n" + FX.format(n="a_fx"),
            "mods/b.py": "from mods.a import *\n" + FX.format(n="b_fx"), "mods/c.py": FX.format(n="c_fx"),
            "p1/conftest.py": "from mods.a import *\n", "p1/test_probe.py": _probe(names),
            "p2/conftest.py": "from mods.b import *\n", "p2/test_probe.py": _probe(names)},
        "probes": ["p1/test_probe.py", "p2/test_probe.py"], "names": names})
    # 2. a two-level diamond whose shared middle module has no fixtures of its own: a -> m -> common, b -> m;
    #    one conftest imports a before b, another reaches the fixture through b only
    names = ["common_fx", "a2_fx", "b2_fx"]
    out.append({
        "name": "diamond_with_an_empty_middle_module",
        "files": {
            "dm/__init__.py": "", "dm/common.py": FX.format(n="common_fx"), "dm/m.py": "from dm.common import *\n",
            "dm/a.py": "from dm.m import *\n" + FX.format(n="a2_fx"), "dm/b.py": "from dm.m import *\n" + FX.format(n="b2_fx"),
            "q1/conftest.py": "from dm.a import *\nfrom dm.b import *\n", "q1/test_probe.py": _probe(names),
            "q2/conftest.py": "from dm.b import *\n", "q2/test_probe.py": _probe(["common_fx", "b2_fx"])},
        "probes": ["q1/test_probe.py", "q2/test_probe.py"], "names": names})
    # 3. pytest_plugins edges instead of star imports, three entry points into a ring of three
    names = ["r0_fx", "r1_fx", "r2_fx"]
    ring = {f"ring/r{i}.py": f'pytest_plugins = ["ring.r{(i + 1) % 3}"]\n' + FX.format(n=f"r{i}_fx") for i in range(3)}
    files = {"ring/__init__.py": ""} | ring
    for i in range(3):
        files[f"e{i}/conftest.py"] = f"from ring.r{i} import *\n"
        files[f"e{i}/test_probe.py"] = _probe(names)
    out.append({"name": "plugin_ring_three_entry_points", "files": files,
                "probes": [f"e{i}/test_probe.py" for i in range(3)], "names": names})
    return out
