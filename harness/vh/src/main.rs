//! vh — verification harness around the *library* of pytest-language-server.
//!
//! JSON-lines command server on stdin/stdout.  One process can hold many
//! `FixtureDatabase`s (twins).  Every command is answered with exactly one line.
//! The harness contains no oracle: it only executes the real code and reports what
//! it observed (maps, query results, lock/schedule traces).  Python decides.

use pytest_language_server::{FixtureDatabase, FixtureDefinition, FixtureUsage};
use serde_json::{json, Map, Value};
use std::collections::BTreeSet;
use std::io::{BufRead, Write};
use std::panic::{catch_unwind, AssertUnwindSafe};
use std::path::{Path, PathBuf};
use std::sync::{Arc, Mutex};

fn p2s(p: &Path) -> String {
    p.to_string_lossy().to_string()
}

fn def_json(d: &FixtureDefinition) -> Value {
    json!({
        "name": d.name, "file": p2s(&d.file_path), "line": d.line, "end_line": d.end_line,
        "start_char": d.start_char, "end_char": d.end_char, "docstring": d.docstring,
        "return_type": d.return_type, "third_party": d.is_third_party, "plugin": d.is_plugin,
        "deps": d.dependencies, "scope": d.scope.as_str(), "yield_line": d.yield_line,
        "autouse": d.autouse
    })
}

fn def_id(d: &FixtureDefinition) -> Value {
    json!([p2s(&d.file_path), d.line, d.name])
}

fn usage_json(u: &FixtureUsage) -> Value {
    json!({"name": u.name, "file": p2s(&u.file_path), "line": u.line,
           "start_char": u.start_char, "end_char": u.end_char})
}

fn usage_id(u: &FixtureUsage) -> Value {
    json!([p2s(&u.file_path), u.line, u.start_char, u.end_char, u.name])
}

struct Dbs {
    dbs: Vec<Arc<FixtureDatabase>>,
}

fn get_db(dbs: &Dbs, cmd: &Value) -> Result<Arc<FixtureDatabase>, String> {
    let i = cmd.get("db").and_then(|v| v.as_u64()).ok_or("missing db")? as usize;
    dbs.dbs.get(i).cloned().ok_or_else(|| "no such db".to_string())
}

fn s<'a>(cmd: &'a Value, k: &str) -> Result<&'a str, String> {
    cmd.get(k)
        .and_then(|v| v.as_str())
        .ok_or_else(|| format!("missing string field {}", k))
}

fn n(cmd: &Value, k: &str) -> Result<u64, String> {
    cmd.get(k)
        .and_then(|v| v.as_u64())
        .ok_or_else(|| format!("missing integer field {}", k))
}

fn all_files(db: &FixtureDatabase) -> BTreeSet<PathBuf> {
    let mut files = BTreeSet::new();
    for e in db.usages.iter() {
        files.insert(e.key().clone());
    }
    for e in db.file_definitions.iter() {
        files.insert(e.key().clone());
    }
    for e in db.file_cache.iter() {
        files.insert(e.key().clone());
    }
    files
}

fn raw_maps(db: &FixtureDatabase) -> Value {
    let mut defs = Map::new();
    for e in db.definitions.iter() {
        defs.insert(
            e.key().clone(),
            Value::Array(e.value().iter().map(def_json).collect()),
        );
    }
    let mut fdefs = Map::new();
    for e in db.file_definitions.iter() {
        let mut v: Vec<String> = e.value().iter().cloned().collect();
        v.sort();
        fdefs.insert(p2s(e.key()), json!(v));
    }
    let mut usages = Map::new();
    for e in db.usages.iter() {
        usages.insert(
            p2s(e.key()),
            Value::Array(e.value().iter().map(usage_json).collect()),
        );
    }
    let mut ubf = Map::new();
    for e in db.usage_by_fixture.iter() {
        ubf.insert(
            e.key().clone(),
            Value::Array(
                e.value()
                    .iter()
                    .map(|(p, u)| json!({"key_file": p2s(p), "usage": usage_json(u)}))
                    .collect(),
            ),
        );
    }
    let mut und = Map::new();
    for e in db.undeclared_fixtures.iter() {
        und.insert(
            p2s(e.key()),
            Value::Array(
                e.value()
                    .iter()
                    .map(|u| {
                        json!({"name": u.name, "line": u.line, "start_char": u.start_char,
                               "end_char": u.end_char, "function": u.function_name,
                               "function_line": u.function_line})
                    })
                    .collect(),
            ),
        );
    }
    let mut imports = Map::new();
    for e in db.imports.iter() {
        let mut v: Vec<String> = e.value().iter().cloned().collect();
        v.sort();
        imports.insert(p2s(e.key()), json!(v));
    }
    let mut cache_files: Vec<String> = db.file_cache.iter().map(|e| p2s(e.key())).collect();
    cache_files.sort();
    let mut plugin_files: Vec<String> = db
        .plugin_fixture_files
        .iter()
        .map(|e| p2s(e.key()))
        .collect();
    plugin_files.sort();
    json!({
        "definitions": defs, "file_definitions": fdefs, "usages": usages,
        "usage_by_fixture": ubf, "undeclared": und, "imports": imports,
        "file_cache": cache_files, "plugin_files": plugin_files,
        "version": db.definitions_version.load(std::sync::atomic::Ordering::SeqCst),
    })
}

fn invariants(db: &FixtureDatabase) -> Vec<String> {
    let mut bad = Vec::new();
    // usage_by_fixture == inverse(usages) as multisets
    let mut a: Vec<String> = Vec::new();
    for e in db.usages.iter() {
        if e.value().is_empty() {
            // an empty vector is legal only transiently; at quiescence it is still harmless
        }
        for u in e.value().iter() {
            if &u.file_path != e.key() {
                bad.push(format!("usages[{}] holds a usage of file {}", p2s(e.key()), p2s(&u.file_path)));
            }
            a.push(format!("{}|{}|{}|{}|{}", u.name, p2s(e.key()), u.line, u.start_char, u.end_char));
        }
    }
    let mut b: Vec<String> = Vec::new();
    for e in db.usage_by_fixture.iter() {
        if e.value().is_empty() {
            bad.push(format!("usage_by_fixture[{}] is an empty vector", e.key()));
        }
        for (p, u) in e.value().iter() {
            if &u.name != e.key() {
                bad.push(format!("usage_by_fixture[{}] holds usage named {}", e.key(), u.name));
            }
            if p != &u.file_path {
                bad.push(format!("usage_by_fixture[{}] key file {} != usage file {}", e.key(), p2s(p), p2s(&u.file_path)));
            }
            b.push(format!("{}|{}|{}|{}|{}", u.name, p2s(p), u.line, u.start_char, u.end_char));
        }
    }
    a.sort();
    b.sort();
    if a != b {
        let sa: BTreeSet<&String> = a.iter().collect();
        let sb: BTreeSet<&String> = b.iter().collect();
        for x in sa.difference(&sb).take(5) {
            bad.push(format!("usage in usages but not in usage_by_fixture: {}", x));
        }
        for x in sb.difference(&sa).take(5) {
            bad.push(format!("usage in usage_by_fixture but not in usages: {}", x));
        }
        if sa == sb {
            bad.push(format!("usage multiplicities differ: usages has {} entries, usage_by_fixture {}", a.len(), b.len()));
        }
    }
    // file_definitions == {(file, name) of definitions}
    let mut c: BTreeSet<(String, String)> = BTreeSet::new();
    for e in db.definitions.iter() {
        if e.value().is_empty() {
            bad.push(format!("definitions[{}] is an empty vector", e.key()));
        }
        for d in e.value().iter() {
            if &d.name != e.key() {
                bad.push(format!("definitions[{}] holds definition named {}", e.key(), d.name));
            }
            c.insert((p2s(&d.file_path), d.name.clone()));
        }
    }
    let mut d: BTreeSet<(String, String)> = BTreeSet::new();
    for e in db.file_definitions.iter() {
        for nme in e.value().iter() {
            d.insert((p2s(e.key()), nme.clone()));
        }
    }
    for x in c.difference(&d).take(5) {
        bad.push(format!("definition {}::{} missing from file_definitions", x.0, x.1));
    }
    for x in d.difference(&c).take(5) {
        bad.push(format!("file_definitions lists {}::{} but no such definition", x.0, x.1));
    }
    bad
}

fn queries(db: &FixtureDatabase, only_files: Option<Vec<PathBuf>>) -> Value {
    // goto for every recorded usage (at its first column)
    let mut goto = Vec::new();
    let mut usage_list: Vec<FixtureUsage> = Vec::new();
    for e in db.usages.iter() {
        for u in e.value().iter() {
            usage_list.push(u.clone());
        }
    }
    usage_list.sort_by(|a, b| {
        (a.file_path.clone(), a.line, a.start_char, a.name.clone())
            .cmp(&(b.file_path.clone(), b.line, b.start_char, b.name.clone()))
    });
    for u in &usage_list {
        let t = db.find_fixture_definition(
            &u.file_path,
            (u.line as u32).saturating_sub(1),
            u.start_char as u32,
        );
        goto.push(json!({"usage": usage_id(u), "target": t.as_ref().map(def_id)}));
    }
    // refs for every definition
    let mut all_defs: Vec<FixtureDefinition> = Vec::new();
    for e in db.definitions.iter() {
        for d in e.value().iter() {
            all_defs.push(d.clone());
        }
    }
    all_defs.sort_by(|a, b| {
        (a.file_path.clone(), a.line, a.name.clone()).cmp(&(b.file_path.clone(), b.line, b.name.clone()))
    });
    let mut refs = Vec::new();
    for d in &all_defs {
        let mut r: Vec<Value> = db
            .find_references_for_definition(d)
            .iter()
            .map(usage_id)
            .collect();
        r.sort_by_key(|v| v.to_string());
        refs.push(json!({"def": def_id(d), "refs": r}));
    }
    // available fixtures per file
    let mut avail = Map::new();
    let files: BTreeSet<PathBuf> = match only_files {
        Some(v) => v.into_iter().collect(),
        None => all_files(db),
    };
    for f in &files {
        let v: Vec<Value> = db
            .get_available_fixtures(f)
            .iter()
            .map(|d| json!([d.name, p2s(&d.file_path), d.line]))
            .collect();
        avail.insert(p2s(f), Value::Array(v));
    }
    // cycles
    let cycles: Vec<Value> = db
        .detect_fixture_cycles()
        .iter()
        .map(|c| json!({"path": c.cycle_path, "anchor": def_id(&c.fixture)}))
        .collect();
    let mut cycles_in_file = Map::new();
    let mut mism = Map::new();
    let mut undecl = Map::new();
    for f in &files {
        let c: Vec<Value> = db
            .detect_fixture_cycles_in_file(f)
            .iter()
            .map(|c| json!({"path": c.cycle_path, "anchor": def_id(&c.fixture)}))
            .collect();
        if !c.is_empty() {
            cycles_in_file.insert(p2s(f), Value::Array(c));
        }
        let mut m: Vec<Value> = db
            .detect_scope_mismatches_in_file(f)
            .iter()
            .map(|m| {
                json!({"fixture": def_id(&m.fixture), "fscope": m.fixture.scope.as_str(),
                       "dep": def_id(&m.dependency), "dscope": m.dependency.scope.as_str()})
            })
            .collect();
        m.sort_by_key(|v| v.to_string());
        if !m.is_empty() {
            mism.insert(p2s(f), Value::Array(m));
        }
        let u: Vec<Value> = db
            .get_undeclared_fixtures(f)
            .iter()
            .map(|u| json!([u.name, u.line, u.start_char, u.end_char, u.function_name, u.function_line]))
            .collect();
        if !u.is_empty() {
            undecl.insert(p2s(f), Value::Array(u));
        }
    }
    let unused: Vec<Value> = db
        .get_unused_fixtures()
        .iter()
        .map(|(p, nme)| json!([p2s(p), nme]))
        .collect();
    json!({"goto": goto, "refs": refs, "available": avail, "cycles": cycles,
           "cycles_in_file": cycles_in_file, "mismatches": mism, "undeclared": undecl,
           "unused": unused})
}


/// canonical, order-insensitive text of the four index maps (+ reverse index of definitions)
fn index_key(db: &FixtureDatabase) -> String {
    let mut parts: Vec<String> = Vec::new();
    for e in db.definitions.iter() {
        let mut v: Vec<String> = e.value().iter().map(|d| format!("{}@{}:{}", d.name, p2s(&d.file_path), d.line)).collect();
        v.sort();
        parts.push(format!("D[{}]={}", e.key(), v.join(",")));
    }
    for e in db.file_definitions.iter() {
        let mut v: Vec<String> = e.value().iter().cloned().collect();
        v.sort();
        parts.push(format!("F[{}]={}", p2s(e.key()), v.join(",")));
    }
    for e in db.usages.iter() {
        let mut v: Vec<String> = e.value().iter().map(|u| format!("{}@{}:{}:{}", u.name, p2s(&u.file_path), u.line, u.start_char)).collect();
        v.sort();
        if !v.is_empty() {
            parts.push(format!("U[{}]={}", p2s(e.key()), v.join(",")));
        }
    }
    for e in db.usage_by_fixture.iter() {
        let mut v: Vec<String> = e.value().iter().map(|(p, u)| format!("{}@{}:{}:{}", u.name, p2s(p), u.line, u.start_char)).collect();
        v.sort();
        parts.push(format!("R[{}]={}", e.key(), v.join(",")));
    }
    parts.sort();
    parts.join(";")
}

/// did another thread write-lock the same (map, shard) between one thread's two consecutive
/// write acquisitions of it (the retain -> remove_if window)?
fn window_hits(events: &[(usize, dashmap::verif::sched::Ev, u64, u32, dashmap::verif::Mode)]) -> usize {
    use dashmap::verif::sched::Ev;
    use dashmap::verif::Mode;
    let mut hits = 0;
    // last released W per (thread, map, shard) -> index
    let mut open: std::collections::HashMap<(usize, u64, u32), usize> = std::collections::HashMap::new();
    let mut foreign: std::collections::HashMap<(usize, u64, u32), bool> = std::collections::HashMap::new();
    for (t, ev, m, sh, md) in events.iter() {
        if *md != Mode::Exclusive || !(*m == 0 || *m == 3) {
            continue;
        }
        match ev {
            Ev::Released => {
                open.insert((*t, *m, *sh), 1);
                foreign.insert((*t, *m, *sh), false);
            }
            Ev::Acquired => {
                // a foreign acquisition inside somebody's window
                for ((ot, om, osh), _) in open.iter() {
                    if *ot != *t && *om == *m && *osh == *sh {
                        foreign.insert((*ot, *om, *osh), true);
                    }
                }
                if open.remove(&(*t, *m, *sh)).is_some() && foreign.remove(&(*t, *m, *sh)) == Some(true) {
                    hits += 1;
                }
            }
            _ => {}
        }
    }
    hits
}

fn exec(dbs: &Mutex<Dbs>, cmd: &Value) -> Result<Value, String> {
    let op = s(cmd, "op")?;
    match op {
        "new_db" => {
            dashmap::verif::begin_group();
            let db = Arc::new(FixtureDatabase::new());
            let mut g = dbs.lock().unwrap();
            g.dbs.push(db);
            Ok(json!({"db": g.dbs.len() - 1}))
        }
        "drop_db" => {
            let i = n(cmd, "db")? as usize;
            let mut g = dbs.lock().unwrap();
            if i < g.dbs.len() {
                g.dbs[i] = Arc::new(FixtureDatabase::new());
            }
            Ok(json!({"ok": true}))
        }
        "analyze" | "analyze_fresh" => {
            let db = get_db(&dbs.lock().unwrap(), cmd)?;
            let path = PathBuf::from(s(cmd, "path")?);
            let text = s(cmd, "text")?;
            if op == "analyze" {
                db.analyze_file(path, text);
            } else {
                db.verif_analyze_file_fresh(path, text);
            }
            Ok(json!({"ok": true}))
        }
        "analyze_disk" => {
            let db = get_db(&dbs.lock().unwrap(), cmd)?;
            let path = PathBuf::from(s(cmd, "path")?);
            let text = std::fs::read_to_string(&path).map_err(|e| e.to_string())?;
            db.analyze_file(path, &text);
            Ok(json!({"ok": true}))
        }
        "scan" => {
            let db = get_db(&dbs.lock().unwrap(), cmd)?;
            let root = PathBuf::from(s(cmd, "root")?);
            let mut pats = Vec::new();
            if let Some(a) = cmd.get("exclude").and_then(|v| v.as_array()) {
                for p in a {
                    if let Some(p) = p.as_str() {
                        if let Ok(g) = glob::Pattern::new(p) {
                            pats.push(g);
                        }
                    }
                }
            }
            db.scan_workspace_with_excludes(&root, &pats);
            Ok(json!({"ok": true}))
        }
        "scan_config" => {
            // scan the way the server does: excludes come from pyproject.toml
            let db = get_db(&dbs.lock().unwrap(), cmd)?;
            let root = PathBuf::from(s(cmd, "root")?);
            let cfg = pytest_language_server::Config::load(&root);
            db.scan_workspace_with_excludes(&root, &cfg.exclude);
            Ok(json!({"ok": true, "disabled": cfg.disabled_diagnostics,
                      "exclude": cfg.exclude.iter().map(|p| p.as_str().to_string()).collect::<Vec<_>>()}))
        }
        "config" => {
            let root = PathBuf::from(s(cmd, "root")?);
            let cfg = pytest_language_server::Config::load(&root);
            Ok(json!({"disabled": cfg.disabled_diagnostics,
                      "exclude": cfg.exclude.iter().map(|p| p.as_str().to_string()).collect::<Vec<_>>(),
                      "skip_plugins": cfg.skip_plugins, "fixture_paths": cfg.fixture_paths}))
        }
        "close" => {
            let db = get_db(&dbs.lock().unwrap(), cmd)?;
            db.cleanup_file_cache(Path::new(s(cmd, "path")?));
            Ok(json!({"ok": true}))
        }
        // what the venv phase of the scan does for a module reached from a pytest11 entry point
        "mark_plugin" => {
            let db = get_db(&dbs.lock().unwrap(), cmd)?;
            db.plugin_fixture_files
                .insert(std::path::PathBuf::from(s(cmd, "path")?), ());
            Ok(json!({"ok": true}))
        }
        "raw" => {
            let db = get_db(&dbs.lock().unwrap(), cmd)?;
            Ok(raw_maps(&db))
        }
        "queries" => {
            let db = get_db(&dbs.lock().unwrap(), cmd)?;
            let files = cmd.get("files").and_then(|v| v.as_array()).map(|a| {
                a.iter().filter_map(|x| x.as_str()).map(PathBuf::from).collect::<Vec<_>>()
            });
            Ok(queries(&db, files))
        }
        "snapshot" => {
            let db = get_db(&dbs.lock().unwrap(), cmd)?;
            // queries first would warm caches; order chosen by the caller
            let order = cmd.get("raw_first").and_then(|v| v.as_bool()).unwrap_or(true);
            if order {
                let r = raw_maps(&db);
                let q = queries(&db, None);
                Ok(json!({"raw": r, "queries": q, "invariants": invariants(&db)}))
            } else {
                let q = queries(&db, None);
                let r = raw_maps(&db);
                Ok(json!({"raw": r, "queries": q, "invariants": invariants(&db)}))
            }
        }
        "invariants" => {
            let db = get_db(&dbs.lock().unwrap(), cmd)?;
            Ok(json!({"violations": invariants(&db)}))
        }
        "goto" => {
            let db = get_db(&dbs.lock().unwrap(), cmd)?;
            let t = db.find_fixture_definition(
                Path::new(s(cmd, "path")?),
                n(cmd, "line")? as u32,
                n(cmd, "char")? as u32,
            );
            Ok(json!({"target": t.as_ref().map(def_json)}))
        }
        "goto_or_def" => {
            let db = get_db(&dbs.lock().unwrap(), cmd)?;
            let t = db.find_fixture_or_definition_at_position(
                Path::new(s(cmd, "path")?),
                n(cmd, "line")? as u32,
                n(cmd, "char")? as u32,
            );
            Ok(json!({"target": t.as_ref().map(def_json)}))
        }
        "fixture_at" => {
            let db = get_db(&dbs.lock().unwrap(), cmd)?;
            let t = db.find_fixture_at_position(
                Path::new(s(cmd, "path")?),
                n(cmd, "line")? as u32,
                n(cmd, "char")? as u32,
            );
            Ok(json!({"name": t}))
        }
        "refs_for_def" => {
            let db = get_db(&dbs.lock().unwrap(), cmd)?;
            let d = db.get_definition_at_line(
                Path::new(s(cmd, "path")?),
                n(cmd, "line")? as usize,
                s(cmd, "name")?,
            );
            match d {
                Some(d) => {
                    let r: Vec<Value> = db
                        .find_references_for_definition(&d)
                        .iter()
                        .map(usage_json)
                        .collect();
                    Ok(json!({"def": def_json(&d), "refs": r}))
                }
                None => Ok(json!({"def": null, "refs": []})),
            }
        }
        "available" => {
            let db = get_db(&dbs.lock().unwrap(), cmd)?;
            let v: Vec<Value> = db
                .get_available_fixtures(Path::new(s(cmd, "path")?))
                .iter()
                .map(def_json)
                .collect();
            Ok(json!({"available": v}))
        }
        "cycles" => {
            let db = get_db(&dbs.lock().unwrap(), cmd)?;
            let v: Vec<Value> = db
                .detect_fixture_cycles()
                .iter()
                .map(|c| json!({"path": c.cycle_path, "anchor": def_json(&c.fixture)}))
                .collect();
            Ok(json!({"cycles": v}))
        }
        "cycles_in_file" => {
            let db = get_db(&dbs.lock().unwrap(), cmd)?;
            let v: Vec<Value> = db
                .detect_fixture_cycles_in_file(Path::new(s(cmd, "path")?))
                .iter()
                .map(|c| json!({"path": c.cycle_path, "anchor": def_json(&c.fixture)}))
                .collect();
            Ok(json!({"cycles": v}))
        }
        "mismatches" => {
            let db = get_db(&dbs.lock().unwrap(), cmd)?;
            let v: Vec<Value> = db
                .detect_scope_mismatches_in_file(Path::new(s(cmd, "path")?))
                .iter()
                .map(|m| json!({"fixture": def_json(&m.fixture), "dependency": def_json(&m.dependency)}))
                .collect();
            Ok(json!({"mismatches": v}))
        }
        "undeclared" => {
            let db = get_db(&dbs.lock().unwrap(), cmd)?;
            let v: Vec<Value> = db
                .get_undeclared_fixtures(Path::new(s(cmd, "path")?))
                .iter()
                .map(|u| {
                    json!({"name": u.name, "line": u.line, "start_char": u.start_char,
                           "end_char": u.end_char, "function": u.function_name,
                           "function_line": u.function_line})
                })
                .collect();
            Ok(json!({"undeclared": v}))
        }
        "completion_ctx" => {
            let db = get_db(&dbs.lock().unwrap(), cmd)?;
            let c = db.get_completion_context(
                Path::new(s(cmd, "path")?),
                n(cmd, "line")? as u32,
                n(cmd, "char")? as u32,
            );
            Ok(json!({"ctx": c.map(|c| format!("{:?}", c))}))
        }
        "insertion" => {
            let db = get_db(&dbs.lock().unwrap(), cmd)?;
            let i = db.get_function_param_insertion_info(
                Path::new(s(cmd, "path")?),
                n(cmd, "line")? as usize,
            );
            Ok(json!({"info": i.map(|i| json!({"line": i.line, "char": i.char_pos, "comma": i.needs_comma}))}))
        }
        "unused" => {
            let db = get_db(&dbs.lock().unwrap(), cmd)?;
            let v: Vec<Value> = db
                .get_unused_fixtures()
                .iter()
                .map(|(p, nme)| json!([p2s(p), nme]))
                .collect();
            Ok(json!({"unused": v}))
        }
        "imported" => {
            let db = get_db(&dbs.lock().unwrap(), cmd)?;
            let mut visited = std::collections::HashSet::new();
            let mut v: Vec<String> = db
                .get_imported_fixtures(Path::new(s(cmd, "path")?), &mut visited)
                .into_iter()
                .collect();
            v.sort();
            Ok(json!({"imported": v}))
        }
        "containing_function" => {
            let db = get_db(&dbs.lock().unwrap(), cmd)?;
            let f = db.find_containing_function(Path::new(s(cmd, "path")?), n(cmd, "line")? as usize);
            Ok(json!({"function": f}))
        }
        "print_tree" => {
            // CLI tree printer writes to stdout; not usable over this protocol
            Err("use the srv binary for CLI output".into())
        }
        "lockstats" => {
            let v: Value = serde_json::from_str(&dashmap::verif::stats_json()).map_err(|e| e.to_string())?;
            Ok(v)
        }
        "batch" => {
            let cmds = cmd.get("cmds").and_then(|v| v.as_array()).ok_or("missing cmds")?;
            let mut out = Vec::new();
            for c in cmds {
                out.push(run_one(dbs, c));
            }
            Ok(json!({"results": out}))
        }
        "schedule" => {
            let seed = n(cmd, "seed")?;
            let pct = cmd.get("pct").and_then(|v| v.as_u64()).map(|d| d as usize);
            let est = cmd.get("est").and_then(|v| v.as_u64()).unwrap_or(100) as usize;
            let replay: Option<Vec<u8>> = cmd.get("replay").and_then(|v| v.as_array()).map(|a| {
                a.iter().filter_map(|x| x.as_u64()).map(|x| x as u8).collect()
            });
            let threads = cmd.get("threads").and_then(|v| v.as_array()).ok_or("missing threads")?;
            let results: Arc<Mutex<Vec<Vec<Value>>>> =
                Arc::new(Mutex::new(vec![Vec::new(); threads.len()]));
            let mut bodies: Vec<Box<dyn FnOnce() + Send>> = Vec::new();
            // dbs is shared by reference through a raw pointer-free Arc clone of the list
            let snapshot: Vec<Arc<FixtureDatabase>> = dbs.lock().unwrap().dbs.clone();
            for (i, t) in threads.iter().enumerate() {
                let cmds: Vec<Value> = t.as_array().cloned().unwrap_or_default();
                let res = Arc::clone(&results);
                let local = Mutex::new(Dbs { dbs: snapshot.clone() });
                bodies.push(Box::new(move || {
                    for c in &cmds {
                        let r = run_one(&local, c);
                        res.lock().unwrap()[i].push(r);
                    }
                }));
            }
            let tr = dashmap::verif::sched::run(seed, pct, est, replay, bodies);
            let evs: Vec<Value> = tr
                .events
                .iter()
                .map(|(t, e, m, sh, md)| {
                    json!([t, format!("{:?}", e), m, sh, if *md == dashmap::verif::Mode::Shared {"R"} else {"W"}])
                })
                .collect();
            let results = results.lock().unwrap().clone();
            Ok(json!({"hooks": tr.hooks, "decisions": tr.decisions, "events": evs,
                      "deadlock": tr.deadlock, "results": results}))
        }
        "sched_scenario" => {
            // many seeded schedules of one scenario; each on a fresh database
            let setup: Vec<Value> = cmd.get("setup").and_then(|v| v.as_array()).cloned().unwrap_or_default();
            let threads: Vec<Vec<Value>> = cmd.get("threads").and_then(|v| v.as_array()).ok_or("missing threads")?
                .iter().map(|t| t.as_array().cloned().unwrap_or_default()).collect();
            let after: Vec<Value> = cmd.get("after").and_then(|v| v.as_array()).cloned().unwrap_or_default();
            let seed0 = n(cmd, "seed")?;
            let count = n(cmd, "count")?;
            let pct = cmd.get("pct").and_then(|v| v.as_u64()).map(|d| d as usize);
            let est = cmd.get("est").and_then(|v| v.as_u64()).unwrap_or(100) as usize;
            let sequential: Option<Vec<usize>> = cmd.get("sequential").and_then(|v| v.as_array()).map(|a| a.iter().filter_map(|x| x.as_u64()).map(|x| x as usize).collect());
            let mut outcomes: std::collections::BTreeMap<String, (u64, u64, Vec<String>)> = std::collections::BTreeMap::new();
            let mut decisions: std::collections::HashSet<Vec<u8>> = std::collections::HashSet::new();
            let mut total_hooks = 0usize;
            let mut runs_with_window = 0u64;
            let mut panics: Vec<Value> = Vec::new();
            for i in 0..count {
                dashmap::verif::begin_group();
                let db = Arc::new(FixtureDatabase::new());
                let local = Mutex::new(Dbs { dbs: vec![db.clone()] });
                for c in &setup {
                    let r = run_one(&local, c);
                    if r.get("panic").is_some() { panics.push(r); }
                }
                let seed = seed0.wrapping_add(i);
                if let Some(order) = &sequential {
                    for t in order {
                        for c in &threads[*t] {
                            let r = run_one(&local, c);
                            if r.get("panic").is_some() { panics.push(r); }
                        }
                    }
                } else {
                    let mut bodies: Vec<Box<dyn FnOnce() + Send>> = Vec::new();
                    let pan: Arc<Mutex<Vec<Value>>> = Arc::new(Mutex::new(Vec::new()));
                    for t in &threads {
                        let cmds = t.clone();
                        let l = Mutex::new(Dbs { dbs: vec![db.clone()] });
                        let pan = Arc::clone(&pan);
                        bodies.push(Box::new(move || {
                            for c in &cmds {
                                let r = run_one(&l, c);
                                if r.get("panic").is_some() { pan.lock().unwrap().push(r); }
                            }
                        }));
                    }
                    let tr = dashmap::verif::sched::run(seed, pct, est, None, bodies);
                    total_hooks += tr.hooks;
                    if window_hits(&tr.events) > 0 { runs_with_window += 1; }
                    decisions.insert(tr.decisions.clone());
                    panics.extend(pan.lock().unwrap().drain(..));
                }
                let mut after_out: Vec<String> = Vec::new();
                for c in &after {
                    let r = run_one(&local, c);
                    if r.get("panic").is_some() { panics.push(r.clone()); }
                    if c.get("observe").and_then(|v| v.as_bool()).unwrap_or(false) {
                        after_out.push(r.to_string());
                    }
                }
                let mut key = index_key(&db);
                if !after_out.is_empty() {
                    key.push_str(";;OBS=");
                    key.push_str(&after_out.join("|"));
                }
                let inv = invariants(&db);
                let e = outcomes.entry(key).or_insert((0, seed, inv));
                e.0 += 1;
            }
            let outs: Vec<Value> = outcomes.iter().map(|(k, (c, s_, inv))| json!({"index": k, "count": c, "first_seed": s_, "invariants": inv})).collect();
            Ok(json!({"outcomes": outs, "distinct_schedules": decisions.len(), "hooks": total_hooks,
                      "runs_with_window": runs_with_window, "panics": panics}))
        }
        "stress" => {
            let threads = cmd.get("threads").and_then(|v| v.as_array()).ok_or("missing threads")?;
            let snapshot: Vec<Arc<FixtureDatabase>> = dbs.lock().unwrap().dbs.clone();
            let mut handles = Vec::new();
            let barrier = Arc::new(std::sync::Barrier::new(threads.len()));
            for t in threads.iter() {
                let cmds: Vec<Value> = t.as_array().cloned().unwrap_or_default();
                let local = Mutex::new(Dbs { dbs: snapshot.clone() });
                let b = Arc::clone(&barrier);
                handles.push(
                    std::thread::Builder::new()
                        .stack_size(16 << 20)
                        .spawn(move || {
                            b.wait();
                            let mut out = Vec::new();
                            for c in &cmds {
                                out.push(run_one(&local, c));
                            }
                            out
                        })
                        .map_err(|e| e.to_string())?,
                );
            }
            let mut results = Vec::new();
            for h in handles {
                match h.join() {
                    Ok(v) => results.push(Value::Array(v)),
                    Err(_) => results.push(json!({"thread_panic": true})),
                }
            }
            Ok(json!({"results": results}))
        }
        "parses" => {
            // verdict of the parser the implementation uses (grammar boundary for the generators)
            let text = s(cmd, "text")?;
            let ok = rustpython_parser::parse(text, rustpython_parser::Mode::Module, "").is_ok();
            Ok(json!({"ok": ok}))
        }
        "ping" => Ok(json!({"pong": true})),
        _ => Err(format!("unknown op {}", op)),
    }
}

fn panic_message(e: Box<dyn std::any::Any + Send>) -> String {
    if let Some(s) = e.downcast_ref::<&str>() {
        s.to_string()
    } else if let Some(s) = e.downcast_ref::<String>() {
        s.clone()
    } else {
        "non-string panic payload".to_string()
    }
}

thread_local! {
    static LAST_PANIC_LOC: std::cell::RefCell<Option<String>> = const { std::cell::RefCell::new(None) };
}

fn run_one(dbs: &Mutex<Dbs>, cmd: &Value) -> Value {
    let r = catch_unwind(AssertUnwindSafe(|| exec(dbs, cmd)));
    match r {
        Ok(Ok(v)) => v,
        Ok(Err(e)) => json!({"error": e}),
        Err(p) => {
            let loc = LAST_PANIC_LOC.with(|l| l.borrow_mut().take());
            json!({"panic": panic_message(p), "location": loc})
        }
    }
}

fn main() {
    std::panic::set_hook(Box::new(|info| {
        let loc = info
            .location()
            .map(|l| format!("{}:{}:{}", l.file(), l.line(), l.column()));
        LAST_PANIC_LOC.with(|l| *l.borrow_mut() = loc.clone());
        eprintln!("VH-PANIC at {:?}: {}", loc, info);
    }));
    let dbs = Mutex::new(Dbs { dbs: Vec::new() });
    let stdin = std::io::stdin();
    let stdout = std::io::stdout();
    // run commands on a big-stack thread: the repository recurses over ASTs
    let handle = std::thread::Builder::new()
        .stack_size(
            std::env::var("VH_STACK_MB")
                .ok()
                .and_then(|v| v.parse::<usize>().ok())
                .unwrap_or(8)
                << 20,
        )
        .spawn(move || {
            for line in stdin.lock().lines() {
                let line = match line {
                    Ok(l) => l,
                    Err(_) => break,
                };
                if line.trim().is_empty() {
                    continue;
                }
                let out = match serde_json::from_str::<Value>(&line) {
                    Ok(cmd) => run_one(&dbs, &cmd),
                    Err(e) => json!({"error": format!("bad json: {}", e)}),
                };
                let mut o = stdout.lock();
                let _ = writeln!(o, "{}", out);
                let _ = o.flush();
            }
        })
        .unwrap();
    let _ = handle.join();
}
